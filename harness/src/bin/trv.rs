//! trv <ID> [--tier quick|thorough] [--seed N] [--replay file] [--threads N]
use serde_json::{json, Value};
use std::time::Instant;
use trv::props;
use trv::report::{drive, finish, Agg, CheckMeta, Tier};

struct Args {
    id: String,
    tier: Tier,
    seed: u64,
    threads: usize,
    replay: Option<(String, u64)>, // engine, scenario seed
    only_engine: Option<String>,
}

fn parse() -> Args {
    let a: Vec<String> = std::env::args().collect();
    if a.len() < 2 {
        eprintln!("usage: trv <ID> [--tier quick|thorough] [--seed N] [--replay file]");
        std::process::exit(64);
    }
    let mut tier = match std::env::var("VERIF_TIER").ok().as_deref() {
        Some("thorough") => Tier::Thorough,
        _ => Tier::Quick,
    };
    let mut seed: u64 = std::env::var("VERIF_SEED").ok().and_then(|s| s.parse().ok()).unwrap_or(1);
    let mut threads = std::thread::available_parallelism().map(|n| n.get()).unwrap_or(8).min(16);
    let mut replay = None;
    let mut only_engine = std::env::var("TRV_ENGINE").ok();
    let mut i = 2;
    while i < a.len() {
        match a[i].as_str() {
            "quick" => tier = Tier::Quick,
            "thorough" => tier = Tier::Thorough,
            "--tier" => {
                i += 1;
                tier = if a[i] == "thorough" { Tier::Thorough } else { Tier::Quick };
            }
            "--seed" => {
                i += 1;
                seed = a[i].parse().expect("seed");
            }
            "--engine" => {
                i += 1;
                only_engine = Some(a[i].clone());
            }
            "--threads" => {
                i += 1;
                threads = a[i].parse().expect("threads");
            }
            "--replay" => {
                i += 1;
                let s = std::fs::read_to_string(&a[i]).expect("replay file");
                let v: Value = serde_json::from_str(&s).expect("replay json");
                let engine = v["engine"].as_str().unwrap_or("sim").to_string();
                let ss = v["scenario_seed"].as_u64().expect("scenario_seed");
                replay = Some((engine, ss));
            }
            x => {
                eprintln!("unknown argument {x}");
                std::process::exit(64);
            }
        }
        i += 1;
    }
    Args { id: a[1].clone(), tier, seed, threads, replay, only_engine }
}

fn main() {
    trv::sim::install_panic_hook();
    let args = parse();
    let started = Instant::now();
    let plan = match props::plan(&args.id) {
        Some(p) => p,
        None => {
            eprintln!("unknown property {}", args.id);
            std::process::exit(64);
        }
    };
    if let Some((engine, sseed)) = &args.replay {
        let e = plan.engines.iter().find(|e| e.name == *engine).unwrap_or_else(|| {
            eprintln!("engine {engine} not available for {}", args.id);
            std::process::exit(64)
        });
        let r = (e.run)(*sseed, args.tier);
        println!("replay property={} engine={} scenario_seed={}", args.id, engine, sseed);
        println!("case: {}", r.case);
        for l in trv::report::render_log(&r.log) {
            println!("{l}");
        }
        for v in &r.violations {
            println!("MONITOR: [{}] {}", v.signature, v.message);
        }
        if let Some(w) = &r.inconclusive {
            println!("inconclusive: {w}");
        }
        let known = trv::report::Known::load();
        let real = r.violations.iter().filter(|v| known.is_known(&args.id, &v.signature).is_none()).count();
        std::process::exit(if real > 0 { 1 } else { 0 });
    }
    // generous wall-clock watchdog: a stuck run is inconclusive, never a verdict
    {
        let id = args.id.clone();
        let budget = std::env::var("TRV_WATCHDOG_S").ok().and_then(|s| s.parse().ok()).unwrap_or(args.tier.pick(600, 5400));
        std::thread::spawn(move || {
            std::thread::sleep(std::time::Duration::from_secs(budget));
            println!("INCONCLUSIVE property={id} wall-clock watchdog fired after {budget}s");
            std::process::exit(2);
        });
    }
    let known = trv::report::Known::load();
    let mut aggs: Vec<Agg> = vec![];
    for e in &plan.engines {
        // an earlier engine already refuted the property: report that instead of running on
        if aggs.iter().any(|a: &Agg| a.violations.iter().any(|v| known.is_known(&args.id, &v.1.signature).is_none())) {
            break;
        }
        let n = args.tier.pick(e.quick, e.thorough);
        if n == 0 || args.only_engine.as_deref().map(|o| o != e.name).unwrap_or(false) {
            continue;
        }
        let threads = if e.serial { 1 } else { args.threads };
        let base = trv::prng::mix(args.seed, e.salt);
        let tier = args.tier;
        let confirm = !e.name.starts_with("stress") && !matches!(e.name, "miri" | "asan" | "slow-listeners");
        let a = drive(e.name, base, n, threads, confirm, |s| (e.run)(s, tier));
        aggs.push(a);
    }
    let mut extra = json!({});
    if let Some(f) = plan.extra {
        extra = f(args.tier, args.seed);
        // an external engine (Miri, sanitizer) may contribute its own aggregate
    }
    let meta = CheckMeta { id: plan.id, rule: plan.rule, assumptions: plan.assumptions.iter().map(|s| s.to_string()).collect(), floor: plan.floor };
    let code = finish(&meta, args.tier, args.seed, started, aggs, extra);
    std::process::exit(code);
}
