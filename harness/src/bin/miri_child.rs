//! Child process run under `cargo +nightly miri run`: executes a few scenarios of one property
//! and prints one JSON line per scenario. Miri itself is the sanitizer (UB, aliasing, data
//! races, weak memory); the monitors are the same ones the native engines use.
use serde_json::json;
use trv::prng::mix;
use trv::report::Tier;

fn main() {
    trv::sim::install_panic_hook();
    let a: Vec<String> = std::env::args().collect();
    let prop = a.get(1).map(|s| s.as_str()).unwrap_or("");
    let seed: u64 = a.get(2).and_then(|s| s.parse().ok()).unwrap_or(1);
    let count: u64 = a.get(3).and_then(|s| s.parse().ok()).unwrap_or(1);
    for i in 0..count {
        let sseed = mix(seed, i);
        let r = match prop {
            "C11" => trv::props::c11::scenario(sseed, Tier::Quick, true),
            "C08" => trv::props::c08::miri_scenario(sseed),
            "C13" => trv::props::c13::miri_scenario(sseed),
            _ => {
                eprintln!("unknown property {prop}");
                std::process::exit(64);
            }
        };
        let v: Vec<_> = r.violations.iter().map(|v| json!({"signature": v.signature, "message": v.message})).collect();
        println!(
            "TRV-MIRI {}",
            json!({"sseed": sseed, "nontrivial": r.nontrivial, "sig": r.sig, "violations": v, "case": r.case,
                   "counters": r.counters, "maxima": r.maxima, "inconclusive": r.inconclusive,
                   "log": if r.violations.is_empty() { vec![] } else { trv::report::render_log(&r.log) }})
        );
    }
}
