pub mod actors;
pub mod prng;
pub mod props;
pub mod report;
pub mod sim;
pub mod world;
