pub mod c01;
pub mod c02;
pub mod c03;
pub mod c04;
pub mod c05;
pub mod c06;
pub mod c08;
pub mod c10;
pub mod c11;
pub mod c12;
pub mod c13;
pub mod c14;
pub mod c16;
pub mod c17;
pub mod c18;
pub mod c19;
pub mod c20;
pub mod miri;
pub mod sanitize;

use crate::report::{Report, Tier};
use serde_json::Value;

pub struct Engine {
    pub name: &'static str,
    pub salt: u64,
    pub quick: u64,
    pub thorough: u64,
    /// run scenarios one at a time (the engine itself uses all cores)
    pub serial: bool,
    pub run: Box<dyn Fn(u64, Tier) -> Report + Sync + Send>,
}

pub struct Plan {
    pub id: &'static str,
    pub rule: &'static str,
    pub assumptions: Vec<&'static str>,
    pub floor: u64,
    pub engines: Vec<Engine>,
    pub extra: Option<fn(Tier, u64) -> Value>,
}

pub const BASE_ASSUMPTIONS: &[&str] = &[
    "tokio 1.53 paused clock, timers, Semaphore, sync primitives are correct (trusted base)",
    "the harness (Sim sub-executor, Probe, monitors) is correct",
    "sampled, not exhaustive: only the configurations, schedules and faults generated from the seed were observed",
];

pub fn plan(id: &str) -> Option<Plan> {
    Some(match id {
        "C01" => Plan {
            id: "C01",
            rule: "scenario = seeded bulkhead config (builder/presets, N, max_wait) + 2-56 callers on clones with grid arrivals, ok/err/panic/never inner outcomes, cancellations, seeded poll order; non-trivial iff at least one caller queued (entered later than it arrived) or was rejected; distinct = distinct (poll trace, outcome instants) signature",
            assumptions: BASE_ASSUMPTIONS.to_vec(),
            floor: 50,
            engines: vec![
                Engine { name: "sim", salt: 1, quick: 3000, thorough: 120_000, serial: false, run: Box::new(|s, t| c01::scenario("C01", s, t)) },
                Engine { name: "stress", salt: 2, quick: 2, thorough: 12, serial: true, run: Box::new(|s, t| c01::stress(s, t.pick(20_000, 100_000))) },
                Engine { name: "stress-threads", salt: 3, quick: 3, thorough: 16, serial: true, run: Box::new(|s, t| c01::stress_threads(s, t.pick(1500, 5_000))) },
            ],
            extra: None,
        },
        "C07" => Plan {
            id: "C07",
            rule: "same scenarios as C01 followed by a quiescence point and a probe burst of N+1 gated callers; non-trivial iff the history contained a panic, cancellation or wait-timeout and the probe ran; distinct = distinct (poll trace, outcome instants) signature",
            assumptions: BASE_ASSUMPTIONS.to_vec(),
            floor: 50,
            engines: vec![
                Engine { name: "sim", salt: 1, quick: 3000, thorough: 1_000_000, serial: false, run: Box::new(|s, t| c01::scenario("C07", s, t)) },
                Engine { name: "stress-threads", salt: 3, quick: 2, thorough: 12, serial: true, run: Box::new(|s, t| c01::stress_threads_for("C07", s, t.pick(1500, 10_000))) },
            ],
            extra: None,
        },
        "C02" => Plan {
            id: "C02",
            rule: "scenario = seeded limiter (3 window types, presets, L, P, timeout) + either 1-56 concurrent callers on clones with arrivals on window-boundary grids and cancellations, or a sequential driver issuing bursts after exact idle gaps; oracle = exact cut/span decision over the inner-call instants; non-trivial iff >=2 callers waited (or woke at the same instant) or >=1 was rejected; distinct = (poll trace, admission instants, outcomes, config) signature",
            assumptions: BASE_ASSUMPTIONS.to_vec(),
            floor: 50,
            engines: vec![Engine { name: "sim", salt: 1, quick: 6000, thorough: 2_000_000, serial: false, run: Box::new(|s, t| c02::scenario("C02", s, t)) }],
            extra: None,
        },
        "C15" => Plan {
            id: "C15",
            rule: "same scenarios as C02; oracle = per-call decision instant vs first poll + timeout, rejected-never-inner / admitted-exactly-once, spare-capacity and idle-2P immediate admission clauses, waiter-needs-later-window check; non-trivial iff >=1 waiter was admitted later and >=1 call was rejected; distinct = (poll trace, admission instants, outcomes, config) signature",
            assumptions: BASE_ASSUMPTIONS.to_vec(),
            floor: 50,
            engines: vec![Engine { name: "sim", salt: 1, quick: 6000, thorough: 2_000_000, serial: false, run: Box::new(|s, t| c02::scenario("C15", s, t)) }],
            extra: None,
        },
        "C04" => Plan {
            id: "C04",
            rule: "scenario = seeded breaker config (count/time window, sizes, thresholds incl. 0 and 1, minimum below/equal/above/default, permitted 1-4, slow-call detection, custom classifier, presets) + sequential history of 5-260 steps over {ok, fail, slow, class-B error, flagged ok, wait d, force_open, force_closed, reset}; after every step state().await/state_sync()/is_open()/metrics().state and 'inner invoked' are compared with a forking reference machine; non-trivial iff >=1 transition and history longer than the window; distinct = (state/invoked/instant sequence, config) signature. concurrent: the C03/C09 scenarios judged on the transition rules that remain decidable under concurrency (half-open closes only after `permitted` successful trials of that episode, re-opens only after a failed or abandoned trial, open leaves only by elapsed wait or manual override)",
            assumptions: BASE_ASSUMPTIONS.to_vec(),
            floor: 50,
            engines: vec![
                Engine { name: "sim", salt: 1, quick: 6000, thorough: 1_000_000, serial: false, run: Box::new(|s, t| c04::scenario(s, t)) },
                Engine { name: "concurrent", salt: 2, quick: 4000, thorough: 200_000, serial: false, run: Box::new(|s, t| c03::scenario("C04", s, t)) },
            ],
            extra: None,
        },
        "C03" => Plan {
            id: "C03",
            rule: "scenario = seeded breaker (count/time window, thresholds, wait 10-100ms, with/without fallback, slow-call detection) + 4-16 concurrent callers on clones whose completions land while others are admitted, force_open/force_closed/reset at seeded instants, arrivals at open+wait-1ms/=/+1ms; oracle over the merged listener/probe log; non-trivial iff the breaker opened while >=1 call was in flight and >=1 caller arrived while open; distinct = (poll trace, inner-call instants, transitions) signature",
            assumptions: BASE_ASSUMPTIONS.to_vec(),
            floor: 50,
            engines: vec![
                Engine { name: "sim", salt: 1, quick: 6000, thorough: 400_000, serial: false, run: Box::new(|s, t| c03::scenario("C03", s, t)) },
                Engine { name: "stress", salt: 2, quick: 3, thorough: 16, serial: true, run: Box::new(|s, t| c03::stress("C03", s, t.pick(20_000, 100_000))) },
                Engine { name: "stress-parked-call", salt: 5, quick: 3, thorough: 16, serial: true, run: Box::new(|s, _t| c03::parked_call(s)) },
                Engine { name: "stress-slow-listener", salt: 6, quick: 4, thorough: 24, serial: false, run: Box::new(|s, _t| c03::slow_listener(s)) },
            ],
            extra: None,
        },
        "C09" => Plan {
            id: "C09",
            rule: "scenario = as C03 with arrivals concentrated around the instant the open wait elapses (2-16 callers, trial latencies 0-30ms, mixed outcomes so the breaker closes or re-opens while trials run); oracle counts inner calls between an observed transition to half-open and the next transition; non-trivial iff more callers than permitted arrived during one half-open episode; distinct = (poll trace, inner-call instants, transitions) signature",
            assumptions: BASE_ASSUMPTIONS.to_vec(),
            floor: 50,
            engines: vec![
                Engine { name: "sim", salt: 1, quick: 6000, thorough: 400_000, serial: false, run: Box::new(|s, t| c03::scenario("C09", s, t)) },
                Engine { name: "stress", salt: 2, quick: 3, thorough: 16, serial: true, run: Box::new(|s, t| c03::stress("C09", s, t.pick(20_000, 100_000))) },
            ],
            extra: None,
        },
        "C05" => Plan {
            id: "C05",
            rule: "scenario = seeded retry layer (presets/builder, max_attempts 0-5 fixed or per-request, fixed/exponential/capped/jittered/custom backoff wrapped by a logging adapter, predicate on/off, no budget / token bucket / AIMD budget wrapped by a logging adapter) + 1-5 concurrent requests with outcome scripts of length <=6 over {ok, retryable, non-retryable}; oracle per request over the inner-call log; non-trivial iff >=1 retry happened and (with a budget) >=1 denial or >=2 requests competed; distinct = (poll trace, attempt instants, outcomes, config) signature",
            assumptions: BASE_ASSUMPTIONS.to_vec(),
            floor: 50,
            engines: vec![Engine { name: "sim", salt: 1, quick: 6000, thorough: 2_000_000, serial: false, run: Box::new(|s, t| c05::scenario(s, t)) }],
            extra: None,
        },
        "C06" => Plan {
            id: "C06",
            rule: "scenario = time limiter (fixed or per-request timeout of 1/5/10/50ms, cancel or detach mode) + 1-6 concurrent calls with inner latency 0, T-1ms, T, T+1ms, 3T, never, random, ok/err; oracle compares the virtual instant and value of the outer result and the fate of the inner call with the script; non-trivial iff >=1 timeout and >=1 latency within 1ms of its timeout; distinct = (poll trace, resolution instants, outcomes, mode) signature",
            assumptions: BASE_ASSUMPTIONS.to_vec(),
            floor: 50,
            engines: vec![
                Engine { name: "sim", salt: 1, quick: 6000, thorough: 2_000_000, serial: false, run: Box::new(|s, t| c06::scenario(s, t)) },
                Engine { name: "stress-busy-inner", salt: 2, quick: 8, thorough: 64, serial: false, run: Box::new(|s, _| c06::busy_inner(s)) },
            ],
            extra: None,
        },
        "C10" => Plan {
            id: "C10",
            rule: "scenario = cache (LRU/LFU/FIFO or default policy, max_size 1-4, TTL none/10ms/1s, private or shared store, 1-2 services) + 20-120 requests over 3-6 keys (one hot key) with ok/err outcomes, gaps of 0/1ms/TTL-1ms/TTL/TTL+1ms, overlapping misses on one key, cancelled misses, then a closing probe of every key; every response carries a fresh serial; a forking reference cache is driven by the log (lookup at call(), insertion when a miss resolves Ok); non-trivial iff >=1 hit happened after an eviction or expiry; distinct = (inner calls, outcomes, config) signature",
            assumptions: BASE_ASSUMPTIONS.to_vec(),
            floor: 50,
            engines: vec![
                Engine { name: "sim", salt: 1, quick: 4000, thorough: 200_000, serial: false, run: Box::new(|s, t| c10::scenario(s, t)) },
                Engine { name: "stress", salt: 2, quick: 3, thorough: 16, serial: true, run: Box::new(|s, t| c10::stress(s, t.pick(30_000, 150_000))) },
                Engine { name: "asan", salt: 6, quick: 0, thorough: 2, serial: true, run: Box::new(|s, _| sanitize::asan("C10", &["sim", "stress"], s)) },
            ],
            extra: None,
        },
        "C11" => Plan {
            id: "C11",
            rule: "scenario = coalesce layer over a gated probe: 2-12 requests over 1-3 keys arriving on a logical (poll-count) clock; the director completes inner calls ok/err, panics them, drops leaders before first poll / mid-flight / at the step of completion, drops waiters; seeded poll order incl. strict priorities, spurious polls; a fair round-robin drain phase bounds progress in polls; oracle = per-key in-flight counter + serial matching; non-trivial iff >=1 waiter joined an in-flight leader and >=1 leader was dropped or panicked; distinct = (poll trace, outcomes) signature. stress: 48 tasks on 4-16 workers, 3 keys, random aborts, judged on per-key single flight and value-belongs-to-key only",
            assumptions: BASE_ASSUMPTIONS.to_vec(),
            floor: 50,
            engines: vec![
                Engine { name: "sim", salt: 1, quick: 6000, thorough: 400_000, serial: false, run: Box::new(|s, t| c11::scenario(s, t, false)) },
                Engine { name: "unwind-context", salt: 7, quick: 200, thorough: 5000, serial: false, run: Box::new(|s, _t| c11::unwind_context(s)) },
                Engine { name: "stress", salt: 2, quick: 2, thorough: 10, serial: true, run: Box::new(|s, t| c11::stress(s, t.pick(20_000, 100_000))) },
                Engine { name: "stress-threads", salt: 4, quick: 4, thorough: 24, serial: true, run: Box::new(|s, t| c11::stress_threads(s, t.pick(20_000, 100_000))) },
                Engine { name: "miri", salt: 3, quick: 8, thorough: 64, serial: false, run: Box::new(|s, t| miri::run("C11", s, t.pick(2, 4), None, 0.0)) },
                Engine { name: "asan", salt: 6, quick: 0, thorough: 2, serial: true, run: Box::new(|s, _| sanitize::asan("C11", &["sim", "stress", "stress-threads"], s)) },
            ],
            extra: None,
        },
        "C08" => Plan {
            id: "C08",
            rule: "one case = one concurrent history of try_withdraw/deposit calls on a shared token-bucket or AIMD budget (tiny budgets: initial 0-3, max 1-4) with call/return stamps from one atomic clock at the client boundary; checked for conservation at quiescence, balance <= max on every sample, and linearizability (Wing-Gong search; AIMD: relaxed cap in [min,max]); native: thousands of rounds on real threads started from a barrier; Miri: 4 threads x 3 ops under -Zmiri-many-seeds with preemption; non-trivial iff a deposit overlapped another thread's operation in real time; distinct = distinct call/return order + results",
            assumptions: vec![BASE_ASSUMPTIONS[1], BASE_ASSUMPTIONS[2], "Miri's scheduler/weak-memory model and the OS scheduler produce only a sample of the interleavings of the atomic steps"],
            floor: 20,
            engines: vec![
                Engine { name: "stress", salt: 1, quick: 16, thorough: 48, serial: false, run: Box::new(|s, t| c08::stress(s, t.pick(400, 1500))) },
                Engine { name: "miri", salt: 2, quick: 4, thorough: 16, serial: false, run: Box::new(|s, t| miri::run("C08", s, 1, Some(t.pick(16, 48) as u32), 0.1)) },
            ],
            extra: None,
        },
        "C13" => Plan {
            id: "C13",
            rule: "sim: adaptive limiter (AIMD/Vegas, min<=max incl. min=max and min=0, increase 1-5, decrease 0/0.5/0.9/1, alpha/beta grids) over a gated probe on a logical clock with virtual-time jumps; 3-12 callers whose inner calls finish ok/slow/err, panic, or are dropped mid-flight / before first poll; before every poll_ready the harness's own in-flight count and limit() are read atomically; after the history in_flight() and a fresh caller's readiness are inspected; non-trivial iff >=1 call was dropped or panicked in flight and the limit took >=2 values. stress/miri: threads of random record_success/record_failure/record_dropped on the algorithms with a sampler asserting the bounds",
            assumptions: BASE_ASSUMPTIONS.to_vec(),
            floor: 50,
            engines: vec![
                Engine { name: "sim", salt: 1, quick: 6000, thorough: 300_000, serial: false, run: Box::new(|s, t| c13::scenario(s, t)) },
                Engine { name: "extreme", salt: 4, quick: 3000, thorough: 200_000, serial: false, run: Box::new(|s, _t| c13::extreme(s)) },
                Engine { name: "stress", salt: 2, quick: 16, thorough: 64, serial: false, run: Box::new(|s, t| c13::stress(s, t.pick(50, 500))) },
                Engine { name: "miri", salt: 3, quick: 2, thorough: 16, serial: false, run: Box::new(|s, t| miri::run("C13", s, 1, Some(t.pick(16, 64) as u32), 0.1)) },
            ],
            extra: None,
        },
        "C12" => Plan {
            id: "C12",
            rule: "scenario = hedge layer (max 1-4 attempts; default/fixed 0,10,50ms/no_delay/per-attempt delay table) + 1-3 requests whose k-th attempt has scripted latency from {0, d-1ms, d, d+1ms, 2d, 3d, 10d, never} and outcome ok/err; oracle from the observed start instant of every inner call and the observed completions; non-trivial iff >=2 attempts started and >=1 attempt failed; distinct = (attempt start instants, resolution, config) signature",
            assumptions: BASE_ASSUMPTIONS.to_vec(),
            floor: 50,
            engines: vec![
                Engine { name: "sim", salt: 1, quick: 6000, thorough: 2_000_000, serial: false, run: Box::new(|s, t| c12::scenario(s, t)) },
                Engine { name: "stress-loaded-executor", salt: 2, quick: 48, thorough: 640, serial: false, run: Box::new(|s, _t| c12::loaded_executor(s)) },
            ],
            extra: None,
        },
        "C14" => Plan {
            id: "C14",
            rule: "pure: one case = one backoff configuration (ExponentialBackoff / ExponentialRandomBackoff / every ReconnectPolicy constructor; initial 0..days, multiplier 1..10, max absent / below initial / s / h / years, randomization 0..1; grid walked first, then random configurations) swept over attempts 0..1500 (thorough 0..10000) dense plus 2^k, 2^k+-1, i32/u32 boundaries up to usize::MAX and random large attempts, under catch_unwind against an f64 reference; non-trivial iff the sweep reached the cap or attempts > 64; distinct = distinct configurations. sim-outage: reconnect layer (default and grids) against an always-failing probe for 1-48h of virtual time",
            assumptions: vec!["f64 reference with relative tolerance 1e-9 + 2ns", "sampled configurations and attempt numbers; dense only up to 10^4"],
            floor: 20,
            engines: vec![
                Engine { name: "pure", salt: 1, quick: 1200, thorough: 100_000, serial: false, run: Box::new(|s, t| c14::scenario(s, t)) },
                Engine { name: "sim-outage", salt: 2, quick: 8, thorough: 64, serial: false, run: Box::new(|s, t| c14::outage(s, t)) },
            ],
            extra: None,
        },
        "C16" => Plan {
            id: "C16",
            rule: "scenario = reconnect layer (policy none/fixed/exponential/jittered/custom/default, half of them wrapped by a logging adapter; max_attempts 0,1,2,5,unlimited; retry_on_reconnect on/off; predicate on/off; with_defaults) + 1-5 sequential requests with outcome scripts <=9 over {ok, reconnectable, other} and latencies; a sampler reads the published state every 500us; oracle per request over the inner-call log; non-trivial iff >=1 retry and >=1 request ended on an error path; distinct = (attempt instants, outcomes, config) signature",
            assumptions: BASE_ASSUMPTIONS.to_vec(),
            floor: 50,
            engines: vec![Engine { name: "sim", salt: 1, quick: 4000, thorough: 60_000, serial: false, run: Box::new(|s, t| c16::scenario(s, t)) }],
            extra: None,
        },
        "C17" => Plan {
            id: "C17",
            rule: "grid of 6 strategies x {no predicate via shortcut constructor, no predicate via builder, accept-all predicate, class predicate} x {backup ok, backup failing} x {predicate set before, after the strategy} = 96 configurations, each walked by the seeds (every configuration is run with inner Ok, handled error and rejected error, plus random payloads/latencies); oracle = pure reference function of (strategy, predicate, request, inner outcome, backup outcome) and the invocation log of the strategy closures; non-trivial iff the strategy was actually invoked; distinct = (grid index, payloads) signature",
            assumptions: BASE_ASSUMPTIONS.to_vec(),
            floor: 40,
            engines: vec![Engine { name: "sim", salt: 1, quick: 2000, thorough: 500_000, serial: false, run: Box::new(|s, t| c17::scenario(s, t, None)) }],
            extra: Some(|_t, _s| serde_json::json!({"grid_size": c17::GRID, "grid_note": "scenario seeds are mapped onto the 96-cell grid by seed mod 1000003 mod 96; buckets in engines.sim list the per-cell counts"})),
        },
        "C18" => Plan {
            id: "C18",
            rule: "scenario = health-check wrapper with its own background task on the paused clock: 1-5 resources, thresholds 1-4 (or the defaults), scripted result per (resource, check) over {healthy, degraded, unhealthy, unknown, slower than the timeout} in moody runs, 50-300 check intervals, strategies first-available / round-robin / prefer-healthy / two custom selectors; after every interval get_status of every resource is compared with a reference hysteresis machine and n get_usable + n get_healthy calls are judged for eligibility, None-iff-empty and round-robin evenness; non-trivial iff >=2 status flips and >=1 timed-out check; distinct = (published status sequence, config) signature. overrun: timeout 12 ms > interval 5 ms, check latencies 0-15 ms; status sampled every ms at x.5 ms and compared, whenever no check of the resource is in progress, with the thresholds machine after the number of checks finished so far",
            assumptions: BASE_ASSUMPTIONS.to_vec(),
            floor: 50,
            engines: vec![
                Engine { name: "sim", salt: 1, quick: 600, thorough: 60_000, serial: false, run: Box::new(|s, t| c18::scenario(s, t)) },
                Engine { name: "overrun", salt: 2, quick: 400, thorough: 40_000, serial: false, run: Box::new(|s, t| c18::scenario_overrun(s, t)) },
                Engine { name: "stress-rotation", salt: 3, quick: 4, thorough: 24, serial: true, run: Box::new(|s, t| c18::stress_rotation(s, t.pick(20_000, 60_000))) },
            ],
            extra: None,
        },
        "C19" => Plan {
            id: "C19",
            rule: "scenario = chaos configuration (seed; error and latency rates from {0, 0.01, 0.2, 0.5, 0.99, 1}; latency bounds in whole ms incl. min = max, min > max, 0; both builder orders; with/without error function) instantiated twice through separate layer() calls and fed the same 50-300 sequential requests; per request the decision (error injected / latency in virtual ms / pass) of both services is compared, injected errors must skip the inner call, extremes and bounds are checked; non-trivial iff both an injection and a pass occurred; distinct = (decision sequence, seed) signature. stress: one seeded service driven by 8-64 tasks on 4-16 worker threads; the tallies (injected errors, inner calls, latency injections, multiset of delays) must equal those of a sequential client with the same seed",
            assumptions: BASE_ASSUMPTIONS.to_vec(),
            floor: 50,
            engines: vec![
                Engine { name: "sim", salt: 1, quick: 1500, thorough: 200_000, serial: false, run: Box::new(|s, t| c19::scenario(s, t)) },
                Engine { name: "stress", salt: 2, quick: 6, thorough: 16, serial: true, run: Box::new(|s, t| c19::stress(s, t.pick(40_000, 100_000))) },
            ],
            extra: None,
        },
        "C20" => Plan {
            id: "C20",
            rule: "transparency/readiness: grid of 27 targets (13 layers in non-triggering configurations + 14 stacks of the composition guide) x 7 inner services (strict probe x2, probe pending 1 and 3 times, probe whose poll_ready fails, tower Buffer, tower ConcurrencyLimit), walked by the seeds, each with 2-8 sequential requests with unique payloads, ok/err outcomes and latencies; the probe's per-instance readiness flag, the request it received and the value returned are compared. listeners: 9 layers with 4 listeners each; one seeded concurrent workload is run with every one of the 16 subsets of listeners panicking and compared with the all-quiet run (outcomes, instants, per-listener event counts). engaged-readiness: the retry (C05), hedge (C12) and reconnect (C16) workloads re-run with the strict probe, judging only the readiness flag of every inner call incl. retries, hedges and reconnect attempts. non-trivial iff requests resolved / a panicking listener actually fired / an attempt after the first happened; distinct = (target, inner kind, request script) or (layer, workload) signature",
            assumptions: BASE_ASSUMPTIONS.to_vec(),
            floor: 50,
            engines: vec![
                Engine { name: "transparency-readiness", salt: 1, quick: 1512, thorough: 60_000, serial: false, run: Box::new(|s, t| c20::scenario_t(s, t)) },
                Engine { name: "listeners", salt: 2, quick: 180, thorough: 9_000, serial: false, run: Box::new(|s, t| c20::scenario_l(s, t)) },
                Engine { name: "slow-listeners", salt: 4, quick: 2, thorough: 8, serial: false, run: Box::new(|s, t| c20::scenario_slow(s, t)) },
                Engine { name: "engaged-readiness", salt: 3, quick: 1500, thorough: 60_000, serial: false, run: Box::new(|s, t| c20::scenario_e(s, t)) },
            ],
            extra: Some(|_t, _s| serde_json::json!({"targets": c20::targets(), "inner_kinds": ["strict-probe", "strict-probe", "pending-probe(1)", "pending-probe(3)", "ready-error", "buffer", "concurrency-limit"], "listener_layers": c20::LISTENER_LAYERS})),
        },
        _ => return None,
    })
}
