//! E-ASAN: rebuilds `trv` with AddressSanitizer (+ LeakSanitizer) on the nightly toolchain and runs
//! some of a property's own engines in that build as child processes. The children's monitors
//! judge as usual; on top of that a sanitizer report (heap overflow, use after free, leak, ...)
//! is a violation. A build failure or a child dying for any other reason is inconclusive.

use crate::report::Report;
use serde_json::{json, Value};
use std::path::PathBuf;
use std::process::Command;
use std::sync::OnceLock;

static BUILD: OnceLock<Result<PathBuf, String>> = OnceLock::new();

fn build() -> Result<PathBuf, String> {
    BUILD
        .get_or_init(|| {
            let dir = crate::report::verif_dir().join("harness");
            let out = Command::new("cargo")
                .current_dir(&dir)
                .args(["+nightly", "build", "--release", "--offline", "--quiet", "--target", "x86_64-unknown-linux-gnu", "--bin", "trv"])
                .env("RUSTFLAGS", "-Zsanitizer=address -Cforce-frame-pointers=yes")
                .env("CARGO_NET_OFFLINE", "true")
                .env("CARGO_TARGET_DIR", dir.join("target-asan"))
                .output()
                .map_err(|e| format!("cannot start cargo: {e}"))?;
            if !out.status.success() {
                let err = String::from_utf8_lossy(&out.stderr);
                let tail: Vec<&str> = err.lines().rev().take(6).collect();
                return Err(format!("AddressSanitizer build failed: {}", tail.into_iter().rev().collect::<Vec<_>>().join(" | ")));
            }
            Ok(dir.join("target-asan/x86_64-unknown-linux-gnu/release/trv"))
        })
        .clone()
}

/// Runs `engines` of `prop` (quick tier, seed derived from `sseed`) in the ASan build.
pub fn asan(prop: &str, engines: &[&str], sseed: u64) -> Report {
    let mut rep = Report::default();
    let bin = match build() {
        Ok(b) => b,
        Err(e) => {
            rep.inconclusive = Some(e);
            return rep;
        }
    };
    let vdir = crate::report::verif_dir();
    let scratch = vdir.join("harness/target-asan").join(format!("scratch-{prop}"));
    let _ = std::fs::create_dir_all(&scratch);
    let _ = std::fs::copy(vdir.join("known_findings.json"), scratch.join("known_findings.json"));
    let mut runs = vec![];
    for (i, e) in engines.iter().enumerate() {
        let child_seed = crate::prng::mix(sseed, i as u64 + 1) % 1_000_000_007;
        let out = Command::new(&bin)
            .args([prop, "quick", "--engine", e, "--seed", &child_seed.to_string()])
            .env("VERIF_DIR", &scratch)
            .env("TRV_NO_FLOOR", "1")
            .env_remove("TRV_ENGINE")
            .env("ASAN_OPTIONS", "detect_leaks=1:halt_on_error=1:abort_on_error=0:exitcode=67:detect_stack_use_after_return=1")
            .output();
        let out = match out {
            Ok(o) => o,
            Err(e) => {
                rep.inconclusive = Some(format!("cannot start the sanitizer build: {e}"));
                return rep;
            }
        };
        let stdout = String::from_utf8_lossy(&out.stdout);
        let stderr = String::from_utf8_lossy(&out.stderr);
        let mut reported = false;
        for l in stderr.lines().chain(stdout.lines()) {
            if let Some(p) = l.find("ERROR: AddressSanitizer: ").map(|p| p + 25).or_else(|| l.find("ERROR: LeakSanitizer: ").map(|p| p + 22)) {
                let kind: String = l[p..].split(|c: char| c == ' ' || c == ':').next().unwrap_or("report").to_string();
                let frames: Vec<&str> = stderr.lines().filter(|x| x.trim_start().starts_with('#') && (x.contains("tower_resilience") || x.contains("trv::"))).take(4).collect();
                rep.violate(format!("{prop}:asan:{kind}"), format!("sanitizer report in engine {e} (child seed {child_seed}): {} || {}", l.trim(), frames.join(" | ")));
                reported = true;
            }
        }
        for l in stdout.lines() {
            if let Some(rest) = l.strip_prefix("VIOLATION ") {
                let sig = rest.split("signature=").nth(1).and_then(|s| s.split(" :: ").next()).unwrap_or("?");
                let msg = rest.split(" :: ").nth(1).unwrap_or(rest);
                rep.violate(sig.to_string(), format!("[AddressSanitizer build, engine {e}, child seed {child_seed}] {msg}"));
                reported = true;
            }
        }
        let code = out.status.code();
        let ev: Option<Value> = std::fs::read_to_string(scratch.join(format!("evidence/{prop}.json"))).ok().and_then(|s| serde_json::from_str(&s).ok());
        let (evals, distinct) = ev.as_ref().map(|v| (v["coverage"]["evaluations"].as_u64().unwrap_or(0), v["coverage"]["distinct_nontrivial"].as_u64().unwrap_or(0))).unwrap_or((0, 0));
        match code {
            Some(0) => {
                rep.count("asan_child_runs_clean", 1);
                rep.count("asan_child_executions", evals);
                rep.count("asan_child_distinct_nontrivial", distinct);
                if distinct > 0 {
                    rep.nontrivial = true;
                    rep.more_sigs.push(crate::prng::mix(child_seed, distinct));
                }
            }
            _ if reported => {}
            _ => {
                let tail: Vec<&str> = stdout.lines().rev().take(2).chain(stderr.lines().rev().take(4)).collect();
                rep.inconclusive = Some(format!("sanitizer child {prop}/{e} exited with {code:?} without a report: {}", tail.join(" | ")));
            }
        }
        runs.push(json!({"engine": e, "child_seed": child_seed, "exit": code, "executions": evals, "distinct_nontrivial": distinct}));
    }
    rep.sig = crate::prng::mix(sseed, runs.len() as u64);
    rep.case = json!({"engine": "asan", "sanitizer": "AddressSanitizer + LeakSanitizer, rustc nightly -Zsanitizer=address", "children": runs});
    rep
}
