//! C03 (open breaker shields the inner service) and C09 (half-open admits at most the
//! permitted trial calls): concurrent callers on clones of one breaker, virtual time.

use crate::actors::{boxed, caller};
use crate::prng::{Fnv, Prng};
use crate::props::c04::{self, map_err};
use crate::report::{Report, Tier};
use crate::sim::{run_sim, What};
use crate::world::{Ev, How, Lat, Out, Outcome, PErr, Rec, Req, Resp, Step};
use futures::future::BoxFuture;
use serde_json::json;
use std::collections::HashMap;
use std::time::Duration;
use tower::Layer;
use tower_resilience_circuitbreaker::{CircuitBreakerLayer, CircuitState, SlidingWindowType};

#[derive(Clone, Debug)]
struct Caller {
    arrive_us: u64,
    lat_us: u64,
    fail: bool,
    /// 0 = no panic, 1 = the inner call's future panics, 2 = the inner `Service::call` itself panics
    panic: u8,
    pause: bool,
    drop_at_us: Option<u64>,
}

#[derive(Clone, Debug)]
pub struct Cfg {
    base: c04::Cfg,
    fallback: bool,
    callers: Vec<Caller>,
    /// (instant, 0 = force_open, 1 = force_closed, 2 = reset)
    manual: Vec<(u64, u8)>,
}

pub fn gen(rng: &mut Prng, focus_half_open: bool) -> Cfg {
    let time_based = rng.chance(0.4);
    let w = rng.range(2, 6) as usize;
    let wait_us = *rng.pick(&[10_000u64, 20_000, 30_000, 100_000]);
    let permitted = rng.range(1, 4) as usize;
    let slow = if rng.chance(0.3) { Some(10_000u64) } else { None };
    let base = c04::Cfg {
        preset: "builder",
        time_based,
        w,
        d_us: *rng.pick(&[20_000u64, 50_000, 100_000]),
        thr: *rng.pick(&[0.25, 0.5, 0.5, 1.0]),
        min_calls: Some(rng.range(1, w as u64) as usize),
        wait_us,
        permitted,
        slow_thr_us: slow,
        slow_rate: *rng.pick(&[0.5, 1.0]),
        custom_classifier: false,
        steps: vec![],
    };
    let n = rng.range(4, 16);
    let mut callers = vec![];
    let fail_bias = *rng.pick(&[0.5, 0.8, 1.0]);
    // phase 1: trip the breaker early; phase 2: arrivals around the end of the open wait
    let trip = rng.range(2, (w as u64 + 2).min(n));
    for i in 0..n {
        let (arrive_us, fail, lat_us) = if i < trip {
            (rng.below(3) * 5000, rng.chance(fail_bias), *rng.pick(&[0u64, 5000, 10_000, 15_000, 30_000]))
        } else if focus_half_open {
            let base_t = wait_us + *rng.pick(&[0u64, 5000, 10_000, 15_000, 20_000, 30_000]);
            let jitter = *rng.pick(&[0i64, 0, 0, 1000, -1000, 2000]);
            ((base_t as i64 + jitter).max(0) as u64, rng.chance(0.35), *rng.pick(&[0u64, 5000, 10_000, 20_000, 30_000]))
        } else {
            let base_t = rng.below((2 * wait_us + 60_000) / 5000) * 5000;
            let jitter = *rng.pick(&[0i64, 0, 0, 1000, -1000]);
            ((base_t as i64 + jitter).max(0) as u64, rng.chance(0.5), *rng.pick(&[0u64, 5000, 10_000, 20_000, 30_000]))
        };
        callers.push(Caller {
            arrive_us,
            lat_us,
            fail,
            panic: if rng.chance(0.06) { 1 + rng.below(2) as u8 } else { 0 },
            pause: rng.chance(0.25),
            drop_at_us: if rng.chance(0.1) { Some(arrive_us + rng.below(5) * 5000) } else { None },
        });
    }
    let mut manual = vec![];
    if rng.chance(0.3) {
        manual.push((rng.below(12) * 5000, 0));
    }
    if rng.chance(0.08) {
        manual.push((rng.below(30) * 5000, 1 + rng.below(2) as u8));
    }
    Cfg { base, fallback: rng.chance(0.4), callers, manual }
}

const FALLBACK_SRC: u8 = 7;

pub fn run(cfg: &Cfg, seed: u64) -> (std::sync::Arc<crate::world::World>, crate::sim::SimStats) {
    let (w, stats, ()) = run_sim(seed, |sim| {
        let w = sim.w.clone();
        let b = &cfg.base;
        let (w1, w2, w3) = (w.clone(), w.clone(), w.clone());
        let st = |s: CircuitState| match s {
            CircuitState::Closed => 0u64,
            CircuitState::Open => 1,
            CircuitState::HalfOpen => 2,
        };
        let layer = c04::configure!(CircuitBreakerLayer::builder(), b)
            .on_state_transition(move |from, to| {
                w1.log(Ev::Listener { name: "transition".into(), a: st(from), b: st(to) });
            })
            .on_call_permitted(move |s| {
                w2.log(Ev::Listener { name: "permitted".into(), a: st(s), b: 0 });
            })
            .on_call_rejected(move || {
                w3.log(Ev::Listener { name: "rejected".into(), a: 0, b: 0 });
            })
            .build();
        let cb = layer.layer(w.probe(1));
        let mut end = 0u64;
        // manual overrides act on a clone's handle
        for (at, what) in &cfg.manual {
            let h = cb.clone();
            let what = *what;
            let w5 = w.clone();
            let a = sim.actor(900 + what as u64, move || {
                boxed(async move {
                    w5.note(format!("manual {}", ["force_open", "force_closed", "reset"][what as usize]));
                    match what {
                        0 => h.force_open().await,
                        1 => h.force_closed().await,
                        _ => h.reset().await,
                    }
                })
            });
            sim.start_at(*at, a);
        }
        let mk_req = |i: usize, c: &Caller| Req::new(i as u64 + 1, 0, vec![Step { lat: Lat::Us(c.lat_us), out: match c.panic { 1 => Out::Panic, 2 => Out::PanicInCall, _ if c.fail => Out::Err(1), _ => Out::Ok } }]);
        if cfg.fallback {
            let w4 = w.clone();
            let svc = cb.with_fallback(move |req: Req| -> BoxFuture<'static, Result<Resp, PErr>> {
                let w4 = w4.clone();
                Box::pin(async move {
                    w4.log(Ev::Listener { name: "fallback".into(), a: req.id, b: 0 });
                    Ok(Resp { serial: 0, req_id: req.id, payload: req.payload, src: FALLBACK_SRC })
                })
            });
            for (i, c) in cfg.callers.iter().enumerate() {
                let req = mk_req(i, c);
                let a = sim.actor(req.id, caller(w.clone(), svc.clone(), req, c.pause, map_err));
                sim.start_at(c.arrive_us, a);
                if let Some(d) = c.drop_at_us {
                    sim.at(d, What::Drop(a));
                }
                end = end.max(c.arrive_us + c.lat_us);
            }
        } else {
            for (i, c) in cfg.callers.iter().enumerate() {
                let req = mk_req(i, c);
                let a = sim.actor(req.id, caller(w.clone(), cb.clone(), req, c.pause, map_err));
                sim.start_at(c.arrive_us, a);
                if let Some(d) = c.drop_at_us {
                    sim.at(d, What::Drop(a));
                }
                end = end.max(c.arrive_us + c.lat_us);
            }
        }
        let _ = SlidingWindowType::CountBased;
        let _ = Duration::ZERO;
        sim.horizon = end + 10_000_000;
    });
    (w, stats)
}

pub fn scenario(which: &str, sseed: u64, _tier: Tier) -> Report {
    let mut rng = Prng::new(sseed);
    let focus = which == "C09" || rng.chance(0.3);
    let cfg = gen(&mut rng, focus);
    let (w, stats) = run(&cfg, rng.next());
    let log = w.take_log();
    let mut rep = judge(which, &cfg, &log);
    let mut sig = Fnv::default();
    sig.add(stats.trace_sig);
    for r in &log {
        match &r.ev {
            Ev::InnerEnter { req, .. } => {
                sig.add(*req);
                sig.add(r.t);
            }
            Ev::Listener { name, a, b } if name == "transition" => {
                sig.add(*a * 3 + *b);
                sig.add(r.t);
            }
            _ => {}
        }
    }
    rep.sig = sig.0;
    rep.count("polls", stats.polls);
    rep.count("events", log.len() as u64);
    if stats.hit_poll_cap || stats.hit_horizon {
        rep.inconclusive = Some(format!("poll_cap={} horizon={}", stats.hit_poll_cap, stats.hit_horizon));
    }
    rep.case = json!({"cfg": format!("{cfg:?}")});
    rep.log = log;
    rep
}

pub fn judge(which: &str, cfg: &Cfg, log: &[Rec]) -> Report {
    let mut rep = Report::default();
    let b = &cfg.base;
    let wt = if b.time_based { "time" } else { "count" };
    let mut cur = 0u64; // state according to the transition listener
    let mut open_since = 0u64;
    let mut inflight = 0i64;
    let mut manual_pending = false;
    let mut opened_with_inflight = false;
    let mut arrived_while_open = 0u64;
    // half-open episode accounting
    let mut ho_enters = 0usize;
    let (mut ho_successes, mut ho_failures, mut ho_abandoned) = (0usize, 0usize, 0usize);
    let mut ho_completed = 0usize;
    let mut ho_arrivals = 0usize;
    let mut max_ho_arrivals = 0usize;
    let mut ho_trials: Vec<u64> = vec![];
    let mut shielded: HashMap<u64, u64> = HashMap::new(); // req -> instant it must be answered at
    let mut enters: HashMap<u64, u64> = HashMap::new();

    for r in log {
        match &r.ev {
            Ev::Note { what } if what.starts_with("manual ") => {
                manual_pending = true;
            }
            Ev::Listener { name, a: _, b: to } if name == "transition" => {
                if cur == 2 {
                    max_ho_arrivals = max_ho_arrivals.max(ho_arrivals);
                }
                // the only ways out of Open before the wait has elapsed are the manual overrides
                if which == "C03" && cur == 1 && *to != 1 && r.t < open_since + b.wait_us && !manual_pending {
                    rep.violate(
                        format!("C03:{wt}:left-open-early"),
                        format!("breaker observed open at t={open_since}us (wait_duration_in_open={}us) left the open state at t={}us (to {}) without force_closed/reset", b.wait_us, r.t, c04::st_name(*to as u8)),
                    );
                }
                if which == "C04" && !manual_pending {
                    let from = cur;
                    match (from, *to) {
                        (2, 0) if ho_successes < b.permitted => rep.violate(
                            format!("C04:{wt}:concurrent:closed-after-too-few-trial-successes"),
                            format!("half-open breaker closed at t={}us after {} successes recorded in this half-open episode, permitted_calls_in_half_open={} (trials {:?})", r.t, ho_successes, b.permitted, ho_trials),
                        ),
                        (2, 1) if ho_failures == 0 && ho_abandoned == 0 => rep.violate(
                            format!("C04:{wt}:concurrent:reopened-without-trial-failure"),
                            format!("half-open breaker re-opened at t={}us although no failure had been recorded and no trial abandoned in this half-open episode (trials {:?})", r.t, ho_trials),
                        ),
                        (1, 2) if r.t < open_since + b.wait_us => rep.violate(format!("C04:{wt}:concurrent:half-open-before-wait"), format!("open since t={open_since}us, half-open at t={}us, wait {}us", r.t, b.wait_us)),
                        (1, 0) => rep.violate(format!("C04:{wt}:concurrent:open-to-closed"), format!("breaker went from open straight to closed at t={}us without force_closed/reset", r.t)),
                        (0, 2) => rep.violate(format!("C04:{wt}:concurrent:closed-to-half-open"), format!("breaker went from closed to half-open at t={}us", r.t)),
                        _ => {}
                    }
                    rep.count("transitions_judged", 1);
                }
                manual_pending = false;
                cur = *to;
                if cur == 1 {
                    open_since = r.t;
                    if inflight > 0 {
                        opened_with_inflight = true;
                    }
                }
                if cur == 2 {
                    ho_enters = 0;
                    ho_completed = 0;
                    ho_arrivals = 0;
                    ho_successes = 0;
                    ho_failures = 0;
                    ho_abandoned = 0;
                    ho_trials.clear();
                    rep.count("half_open_episodes", 1);
                }
            }
            Ev::FirstPoll { req } => {
                if cur == 1 && r.t < open_since + b.wait_us {
                    shielded.insert(*req, r.t);
                    arrived_while_open += 1;
                }
                if cur == 2 || (cur == 1 && r.t >= open_since + b.wait_us) {
                    ho_arrivals += 1;
                }
            }
            Ev::InnerEnter { req, .. } => {
                inflight += 1;
                enters.insert(*req, r.t);
                if which == "C03" {
                    if cur == 1 && r.t < open_since + b.wait_us {
                        rep.violate(
                            format!("C03:{wt}:inner-call-while-open"),
                            format!("r{req} reached the inner service at t={}us although the breaker was observed open at t={open_since}us and wait_duration_in_open={}us", r.t, b.wait_us),
                        );
                    }
                    if shielded.contains_key(req) {
                        rep.violate(format!("C03:{wt}:shielded-call-reached-inner"), format!("r{req} arrived while the breaker was open and still reached the inner service at t={}us", r.t));
                    }
                }
                if cur == 2 {
                    ho_enters += 1;
                    ho_trials.push(*req);
                    rep.max("max_trials_in_one_half_open_episode", ho_enters as u64);
                    if which == "C09" && ho_enters > b.permitted {
                        let kind = if ho_completed < b.permitted { "trials-still-in-flight" } else { "after-permitted-trials-completed" };
                        rep.violate(
                            format!("C09:{wt}:over-admission:{kind}"),
                            format!(
                                "half-open breaker (permitted_calls_in_half_open={}) let trial #{} (r{req}) reach the inner service at t={}us; {} trials had completed, trials so far: {:?}",
                                b.permitted, ho_enters, r.t, ho_completed, ho_trials
                            ),
                        );
                    }
                }
            }
            Ev::InnerExit { req, how, .. } => {
                inflight -= 1;
                if cur == 2 {
                    // every outcome recorded while half-open counts (the property says "successes" and
                    // "any failure", not "of trial calls": a call admitted before the breaker opened may
                    // legitimately finish now); an abandoned *trial* is treated like a failure
                    match how {
                        How::Ok => ho_successes += 1,
                        How::Err(_) => ho_failures += 1,
                        _ => {
                            if ho_trials.contains(req) {
                                ho_abandoned += 1;
                            }
                        }
                    }
                    if ho_trials.contains(req) && matches!(how, How::Ok | How::Err(_)) {
                        ho_completed += 1;
                    }
                }
            }
            Ev::Resolve { req, out } => {
                if which == "C03" {
                    if let Some(&t) = shielded.get(req) {
                        let ok = match out {
                            Outcome::Layer { kind, .. } => !cfg.fallback && kind == "OpenCircuit",
                            Outcome::Ok { src, req_id, .. } => cfg.fallback && *src == FALLBACK_SRC && req_id == req,
                            _ => false,
                        };
                        if !ok {
                            rep.violate(format!("C03:{wt}:wrong-answer-while-open"), format!("r{req} arrived while open (fallback={}) and was answered with {}", cfg.fallback, out.short()));
                        }
                        if r.t != t {
                            rep.violate(format!("C03:{wt}:not-answered-at-once"), format!("r{req} arrived while open at t={t}us but was answered at t={}us", r.t));
                        }
                        rep.count("calls_answered_while_open", 1);
                    } else if let Outcome::Ok { src, .. } = out {
                        if *src == FALLBACK_SRC && !enters.contains_key(req) && false {
                            // fallback used for half-open rejections too: allowed (documented: "only when open" is about state, judged in C04)
                        }
                    }
                }
            }
            Ev::ActorPanic { req, msg } => {
                // the scripted panics of the wrapped service pass through; anything else is the library's
                if !msg.contains("probe: scripted panic") {
                    rep.violate(format!("{which}:{wt}:library-panic"), format!("r{req}: {msg}"));
                }
            }
            _ => {}
        }
    }
    if cur == 2 {
        max_ho_arrivals = max_ho_arrivals.max(ho_arrivals);
    }
    rep.max("max_arrivals_in_one_half_open_episode", max_ho_arrivals as u64);
    rep.count("arrived_while_open", arrived_while_open);
    rep.bucket(format!("{wt} permitted={} fallback={} slow={}", b.permitted, cfg.fallback, b.slow_thr_us.is_some()));
    rep.nontrivial = match which {
        "C04" => opened_with_inflight,
        "C03" => opened_with_inflight && arrived_while_open >= 1,
        _ => max_ho_arrivals > b.permitted,
    };
    rep
}

// ---------------------------------------------------------------------------------------
// E-STRESS: multi-thread runtime, real clock. Only what is sound there is judged: listener
// events are emitted under the breaker's own mutex, so their order in the log is the order of
// the admission decisions. (i) no CallPermitted between a transition to Open and the next
// transition; (ii) at most `permitted` CallPermitted between a transition to HalfOpen and the
// next transition; (iii) at every prefix, inner entries <= CallPermitted events.
// ---------------------------------------------------------------------------------------

pub fn stress(which: &str, sseed: u64, calls: u64) -> Report {
    use tower::Service;
    let mut rng = Prng::new(sseed);
    let workers = *rng.pick(&[4usize, 8, 16]);
    let permitted = rng.range(1, 3) as usize;
    let time_based = rng.chance(0.4);
    let wait_us = *rng.pick(&[500u64, 2000, 5000]);
    let mut rep = Report::default();
    let rt = tokio::runtime::Builder::new_multi_thread().worker_threads(workers).enable_time().build().unwrap();
    let w = crate::world::World::new();
    let (w1, w2, w3) = (w.clone(), w.clone(), w.clone());
    let st = |s: CircuitState| match s {
        CircuitState::Closed => 0u64,
        CircuitState::Open => 1,
        CircuitState::HalfOpen => 2,
    };
    let mut b = CircuitBreakerLayer::builder()
        .failure_rate_threshold(0.5)
        .sliding_window_size(4)
        .minimum_number_of_calls(3)
        .wait_duration_in_open(Duration::from_micros(wait_us))
        .permitted_calls_in_half_open(permitted);
    if time_based {
        b = b.sliding_window_type(SlidingWindowType::TimeBased).sliding_window_duration(Duration::from_millis(20));
    }
    let layer = b
        .on_state_transition(move |from, to| {
            w1.log(Ev::Listener { name: "transition".into(), a: st(from), b: st(to) });
        })
        .on_call_permitted(move |s| {
            w2.log(Ev::Listener { name: "permitted".into(), a: st(s), b: 0 });
        })
        .on_call_rejected(move || {
            w3.log(Ev::Listener { name: "rejected".into(), a: 0, b: 0 });
        })
        .build();
    let svc = layer.layer(w.probe(1));
    let tasks = 32u64;
    let per = calls / tasks;
    let finished = rt.block_on(async {
        tokio::time::timeout(Duration::from_secs(120), async {
            let mut hs = vec![];
            for t in 0..tasks {
                let svc = svc.clone();
                let mut r = Prng::new(sseed ^ (t + 1) * 0x7F4A);
                hs.push(tokio::spawn(async move {
                    for i in 0..per {
                        let mut s = svc.clone();
                        let lat = if r.chance(0.4) { Lat::Us(0) } else { Lat::Us(r.range(1, 300)) };
                        let out = if r.chance(0.55) { Out::Err(1) } else { Out::Ok };
                        let req = Req::new(t * 10_000_000 + i + 1, 0, vec![Step { lat, out }]);
                        if std::future::poll_fn(|cx| s.poll_ready(cx)).await.is_err() {
                            continue;
                        }
                        let fut = s.call(req);
                        if r.chance(0.1) {
                            let h = tokio::spawn(fut);
                            tokio::time::sleep(Duration::from_micros(r.range(0, 200))).await;
                            h.abort();
                            let _ = h.await;
                        } else {
                            let _ = fut.await;
                        }
                        if r.chance(0.05) {
                            tokio::time::sleep(Duration::from_micros(r.range(100, 3000))).await;
                        }
                    }
                }));
            }
            for h in hs {
                let _ = h.await;
            }
        })
        .await
        .is_ok()
    });
    rt.shutdown_background();
    if !finished {
        rep.inconclusive = Some("stress run did not finish within 120s of wall clock".into());
        return rep;
    }
    let log = w.take_log();
    let wt = if time_based { "time" } else { "count" };
    let mut cur = 0u64;
    let mut ho_permitted = 0usize;
    let mut permitted_total = 0u64;
    let mut enters = 0u64;
    let mut opens = 0u64;
    let mut half_opens = 0u64;
    let mut max_ho = 0usize;
    for r in &log {
        match &r.ev {
            Ev::Listener { name, b: to, .. } if name == "transition" => {
                cur = *to;
                if cur == 1 {
                    opens += 1;
                }
                if cur == 2 {
                    half_opens += 1;
                    ho_permitted = 0;
                }
            }
            Ev::Listener { name, .. } if name == "permitted" => {
                permitted_total += 1;
                if cur == 1 && which == "C03" {
                    rep.violate(format!("C03:{wt}:stress:call-permitted-while-open"), format!("a call was permitted (seq {}) after a transition to Open and before the next transition", r.seq));
                }
                if cur == 2 {
                    ho_permitted += 1;
                    max_ho = max_ho.max(ho_permitted);
                    if which == "C09" && ho_permitted > permitted {
                        rep.violate(format!("C09:{wt}:stress:over-admission"), format!("{} calls were permitted in one half-open episode with permitted_calls_in_half_open={permitted} (seq {})", ho_permitted, r.seq));
                    }
                }
            }
            Ev::InnerEnter { .. } => {
                enters += 1;
                if enters > permitted_total && which == "C03" {
                    rep.violate(format!("C03:{wt}:stress:inner-call-without-permission"), format!("{enters} inner calls but only {permitted_total} calls had been permitted (seq {})", r.seq));
                }
            }
            _ => {}
        }
        if rep.violations.len() > 10 {
            break;
        }
    }
    rep.count("stress_inner_calls", enters);
    rep.count("stress_open_transitions", opens);
    rep.count("stress_half_open_episodes", half_opens);
    rep.max("stress_max_permitted_in_one_half_open_episode", max_ho as u64);
    rep.nontrivial = if which == "C03" { opens >= 2 } else { half_opens >= 2 && max_ho >= permitted };
    rep.sig = crate::prng::mix(sseed, opens * 1000 + half_opens);
    rep.case = json!({"engine":"stress","workers":workers,"window":wt,"permitted":permitted,"wait_us":wait_us,"calls":per*tasks,"inner_calls":enters,"open_transitions":opens,"half_open_episodes":half_opens,"max_permitted_in_one_half_open_episode":max_ho});
    rep
}

// ---------------------------------------------------------------------------------------
// Engine "stress-parked-call": a caller that holds a call future it is not polling.
//
// Any client may poll a call future once and then leave it alone for a while (a `select!` loop
// running another branch's body, a future kept in a collection that is drained later). On an open
// breaker every call is to be answered at once. OS threads, no runtime: a hammer thread has clones
// of the open breaker reject calls in a tight loop; the main thread makes calls on its own clones,
// and whenever the first poll of one returns Pending (the rejection has not been decided yet) it
// parks that future un-polled and makes another call, polled continuously for a bounded time.
// Verdict only from a causal witness: the second call stays unanswered while the parked future
// exists and is answered once the parked future is dropped.
pub fn parked_call(sseed: u64) -> Report {
    use std::future::Future;
    use std::sync::atomic::{AtomicBool, AtomicU64, Ordering::SeqCst};
    use std::task::{Context, Poll, Wake, Waker};
    use tower::Service;
    struct Noop;
    impl Wake for Noop {
        fn wake(self: std::sync::Arc<Self>) {}
    }
    fn drive<F: Future + Unpin>(f: &mut F, cx: &mut Context<'_>, budget: Duration) -> Option<F::Output> {
        let t0 = std::time::Instant::now();
        loop {
            for _ in 0..64 {
                if let Poll::Ready(x) = std::pin::Pin::new(&mut *f).poll(cx) {
                    return Some(x);
                }
                std::hint::spin_loop();
            }
            if t0.elapsed() > budget {
                return None;
            }
            std::thread::yield_now();
        }
    }
    let mut rng = Prng::new(sseed);
    let mut rep = Report::default();
    let fallback = rng.chance(0.4);
    let slow_listener_us = if rng.chance(0.3) { rng.range(50, 400) } else { 0 };
    let hammers = rng.range(1, 3) as usize;
    let w = crate::world::World::new();
    let layer = CircuitBreakerLayer::builder()
        .failure_rate_threshold(0.5)
        .sliding_window_size(4)
        .wait_duration_in_open(Duration::from_secs(3600))
        .on_call_rejected(move || {
            if slow_listener_us > 0 {
                let t = std::time::Instant::now();
                while t.elapsed() < Duration::from_micros(slow_listener_us) {
                    std::hint::spin_loop();
                }
            }
        })
        .build();
    let cb = layer.layer(w.probe(1));
    let waker = Waker::from(std::sync::Arc::new(Noop));
    let mut cx = Context::from_waker(&waker);
    {
        let h = cb.clone();
        let mut f = Box::pin(async move { h.force_open().await });
        if drive(&mut f, &mut cx, Duration::from_secs(10)).is_none() {
            rep.inconclusive = Some("force_open() did not complete".into());
            return rep;
        }
    }
    type CallFut = std::pin::Pin<Box<dyn Future<Output = bool> + Send>>;
    // one call on a fresh clone; resolves to "answered with the open-circuit error / the fallback"
    let mk: std::sync::Arc<dyn Fn(u64) -> CallFut + Send + Sync> = if fallback {
        let svc = cb.clone().with_fallback(move |req: Req| -> BoxFuture<'static, Result<Resp, PErr>> { Box::pin(async move { Ok(Resp { serial: 0, req_id: req.id, payload: req.payload, src: 77 }) }) });
        std::sync::Arc::new(move |id| {
            let mut s = svc.clone();
            let waker = Waker::from(std::sync::Arc::new(Noop));
            let _ = s.poll_ready(&mut Context::from_waker(&waker));
            let f = s.call(Req::new(id, 0, vec![Step { lat: Lat::Us(0), out: Out::Ok }]));
            Box::pin(async move { matches!(f.await, Ok(r) if r.src == 77) })
        })
    } else {
        let svc = cb.clone();
        std::sync::Arc::new(move |id| {
            let mut s = svc.clone();
            let waker = Waker::from(std::sync::Arc::new(Noop));
            let _ = s.poll_ready(&mut Context::from_waker(&waker));
            let f = s.call(Req::new(id, 0, vec![Step { lat: Lat::Us(0), out: Out::Ok }]));
            Box::pin(async move { f.await.is_err() })
        })
    };
    let stop = std::sync::Arc::new(AtomicBool::new(false));
    let hammered = std::sync::Arc::new(AtomicU64::new(0));
    let mut hs = vec![];
    for t in 0..hammers as u64 {
        let (mk, stop, hammered) = (mk.clone(), stop.clone(), hammered.clone());
        hs.push(std::thread::spawn(move || {
            let waker = Waker::from(std::sync::Arc::new(Noop));
            let mut cx = Context::from_waker(&waker);
            let mut i = 0u64;
            while !stop.load(SeqCst) {
                i += 1;
                let mut f = mk((t + 1) * 1_000_000_000 + i);
                // bounded: if the breaker is wedged this thread must still come back
                if drive(&mut f, &mut cx, Duration::from_millis(50)).is_some() {
                    hammered.fetch_add(1, SeqCst);
                }
            }
        }));
    }
    let t0 = std::time::Instant::now();
    let mut first_polls = 0u64;
    let mut pending_first_polls = 0u64;
    let mut wrongly_answered = 0u64;
    let mut id = 0u64;
    while t0.elapsed() < Duration::from_millis(1500) && first_polls < 200_000 && rep.violations.is_empty() {
        id += 1;
        let mut f = mk(id);
        first_polls += 1;
        match f.as_mut().poll(&mut cx) {
            Poll::Ready(ok) => {
                if !ok {
                    wrongly_answered += 1;
                }
            }
            Poll::Pending => {
                pending_first_polls += 1;
                // park it; a second call must be answered all the same
                id += 1;
                let mut g = mk(id);
                let while_parked = drive(&mut g, &mut cx, Duration::from_millis(300));
                if while_parked.is_none() {
                    let before = hammered.load(SeqCst);
                    drop(f);
                    let after_drop = drive(&mut g, &mut cx, Duration::from_secs(10));
                    match after_drop {
                        Some(_) => rep.violate(
                            format!("C03:{}:open-breaker-stopped-answering", if fallback { "fallback" } else { "plain" }),
                            format!(
                                "open breaker (wait 3600 s{}): a caller polled one call future once and then left it un-polled; a second call on another clone was not answered within 300 ms of continuous polling and was answered as soon as the parked future was dropped ({} rejections by the {} hammer thread(s) before that)",
                                if slow_listener_us > 0 { format!(", on_call_rejected listener taking {slow_listener_us} us") } else { String::new() },
                                before,
                                hammers
                            ),
                        ),
                        None => rep.inconclusive = Some("a call on the open breaker stayed unanswered even after the parked future was dropped (stalled machine?)".into()),
                    }
                    break;
                }
            }
        }
    }
    stop.store(true, SeqCst);
    for h in hs {
        let _ = h.join();
    }
    if wrongly_answered > 0 {
        rep.violate("C03:parked-call:not-rejected", format!("{wrongly_answered} calls on the open breaker were not answered with the open-circuit error / the fallback"));
    }
    let inner = w.take_log().iter().filter(|r| matches!(r.ev, Ev::InnerEnter { .. })).count();
    if inner > 0 {
        rep.violate("C03:parked-call:inner-reached", format!("{inner} calls reached the wrapped service while the breaker was open"));
    }
    rep.count("first_polls_on_open_breaker", first_polls);
    rep.count("first_polls_pending_under_contention", pending_first_polls);
    rep.count("rejections_by_hammer_threads", hammered.load(SeqCst));
    rep.bucket(format!("{} hammers={hammers}{}", if fallback { "fallback" } else { "plain" }, if slow_listener_us > 0 { " slow-listener" } else { "" }));
    rep.nontrivial = first_polls >= 100 && hammered.load(SeqCst) >= 100;
    rep.sig = crate::prng::mix(sseed, pending_first_polls.min(1));
    rep.case = json!({"engine": "stress-parked-call", "fallback": fallback, "hammers": hammers, "slow_listener_us": slow_listener_us, "first_polls": first_polls, "pending_first_polls": pending_first_polls});
    rep
}

// ---------------------------------------------------------------------------------------
// Engine "stress-slow-listener": the real clock and a transition listener that takes its time.
//
// Under the paused clock a synchronous listener cannot take time. Here `on_state_transition`
// blocks for 150-250 ms whenever the breaker opens (an alert sent synchronously, a log flushed).
// The breaker is open for its callers once `force_open()` has returned, and from then on nothing
// may reach the wrapped service for `wait_duration_in_open`: the time the listener took must not be
// taken out of the open period. One thread, no runtime, calls every few milliseconds; a verdict
// needs the early admission to show up in three runs in a row (the margin is half the listener's
// time, so a single hiccup of the machine cannot fake it three times).
pub fn slow_listener(sseed: u64) -> Report {
    let mut rng = Prng::new(sseed);
    let mut rep = Report::default();
    let wait_ms = *rng.pick(&[300u64, 400]);
    let listen_ms = *rng.pick(&[150u64, 250]);
    let fallback = rng.chance(0.3);
    let mut early: Vec<String> = vec![];
    let mut runs = 0;
    for _ in 0..3 {
        runs += 1;
        match slow_listener_once(wait_ms, listen_ms, fallback) {
            Ok(Some(msg)) => early.push(msg),
            Ok(None) => break,
            Err(m) => {
                rep.inconclusive = Some(m);
                return rep;
            }
        }
    }
    if early.len() == 3 {
        rep.violate(
            format!("C03:{}:admitted-before-the-wait-was-over", if fallback { "fallback" } else { "plain" }),
            format!("wait_duration_in_open {wait_ms} ms, on_state_transition listener taking {listen_ms} ms, real clock, three runs in a row: {}", early.join(" | ")),
        );
    } else if !early.is_empty() {
        rep.count("unreproduced_early_admissions", early.len() as u64);
    }
    rep.count("runs", runs);
    rep.bucket(format!("wait={wait_ms}ms listener={listen_ms}ms{}", if fallback { " fallback" } else { "" }));
    rep.nontrivial = true;
    rep.sig = crate::prng::mix(wait_ms, listen_ms * 2 + fallback as u64);
    rep.case = json!({"engine": "stress-slow-listener", "wait_ms": wait_ms, "listener_ms": listen_ms, "fallback": fallback});
    rep
}

/// Ok(Some(description)) when a call reached the wrapped service too early, Ok(None) when not.
fn slow_listener_once(wait_ms: u64, listen_ms: u64, fallback: bool) -> Result<Option<String>, String> {
    use std::future::Future;
    use std::task::{Context, Poll, Wake, Waker};
    use tower::Service;
    struct Noop;
    impl Wake for Noop {
        fn wake(self: std::sync::Arc<Self>) {}
    }
    fn drive<F: Future + Unpin>(f: &mut F, cx: &mut Context<'_>, budget: Duration) -> Option<F::Output> {
        let t0 = std::time::Instant::now();
        loop {
            if let Poll::Ready(x) = std::pin::Pin::new(&mut *f).poll(cx) {
                return Some(x);
            }
            if t0.elapsed() > budget {
                return None;
            }
            std::thread::yield_now();
        }
    }
    let w = crate::world::World::new();
    let layer = CircuitBreakerLayer::builder()
        .failure_rate_threshold(0.5)
        .sliding_window_size(4)
        .wait_duration_in_open(Duration::from_millis(wait_ms))
        .on_state_transition(move |_from, to| {
            if to == CircuitState::Open {
                std::thread::sleep(Duration::from_millis(listen_ms));
            }
        })
        .build();
    let cb = layer.layer(w.probe(1));
    let waker = Waker::from(std::sync::Arc::new(Noop));
    let mut cx = Context::from_waker(&waker);
    {
        let h = cb.clone();
        let mut f = Box::pin(async move { h.force_open().await });
        if drive(&mut f, &mut cx, Duration::from_secs(20)).is_none() {
            return Err("force_open() did not complete".into());
        }
    }
    // open for its callers from here on
    let t_open = std::time::Instant::now();
    if !cb.is_open() {
        return Err("the breaker is not open after force_open()".into());
    }
    let inner_calls = |w: &crate::world::World| w.snapshot().iter().filter(|r| matches!(r.ev, Ev::InnerEnter { .. })).count();
    let margin = Duration::from_millis(listen_ms / 2);
    let mut id = 0u64;
    type CallFut = std::pin::Pin<Box<dyn Future<Output = ()> + Send>>;
    let fb = cb.clone().with_fallback(move |req: Req| -> BoxFuture<'static, Result<Resp, PErr>> { Box::pin(async move { Ok(Resp { serial: 0, req_id: req.id, payload: req.payload, src: 77 }) }) });
    while t_open.elapsed() < Duration::from_millis(wait_ms + listen_ms + 200) {
        id += 1;
        let req = Req::new(id, 0, vec![Step { lat: Lat::Us(0), out: Out::Ok }]);
        let mut f: CallFut = if fallback {
            let mut s = fb.clone();
            let _ = s.poll_ready(&mut cx);
            let f = s.call(req);
            Box::pin(async move {
                let _ = f.await;
            })
        } else {
            let mut s = cb.clone();
            let _ = s.poll_ready(&mut cx);
            let f = s.call(req);
            Box::pin(async move {
                let _ = f.await;
            })
        };
        if drive(&mut f, &mut cx, Duration::from_secs(10)).is_none() {
            return Err("a call on the breaker did not resolve within 10 s".into());
        }
        let at = t_open.elapsed();
        if inner_calls(&w) > 0 {
            if at + margin < Duration::from_millis(wait_ms) {
                return Ok(Some(format!("call #{id} reached the wrapped service {} ms after force_open() had returned", at.as_millis())));
            }
            return Ok(None);
        }
        std::thread::sleep(Duration::from_millis(4));
    }
    Err("no call was admitted even long after the wait".into())
}
