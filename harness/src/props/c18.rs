//! C18: health status flips only at its thresholds; selection returns eligible resources.

use crate::actors::boxed;
use crate::prng::{Fnv, Prng};
use crate::report::{Report, Tier};
use crate::sim::run_sim;
use crate::world::{lock, Ev, World};
use serde_json::json;
use std::collections::HashMap;
use std::sync::{Arc, Mutex};
use std::time::Duration;
use tower_resilience_healthcheck::{HealthCheckWrapper, HealthStatus, SelectionStrategy};

/// scripted result of one check: 0 healthy, 1 degraded, 2 unhealthy, 3 unknown, 4 slower than the timeout
type Script = Vec<Vec<u8>>;

#[derive(Clone, Debug)]
pub struct Cfg {
    n: usize,
    fail_thr: u32,
    succ_thr: u32,
    /// None = builder defaults for both thresholds (success 1, failure 2)
    defaults: bool,
    strategy: u8, // 0 first available, 1 round robin, 2 prefer healthy, 3 custom (last usable), 4 custom returning None, 5 random
    ticks: usize,
    script: Script,
    /// with_timeout(Duration::MAX): checks never time out ("slow" results simply arrive late)
    huge_timeout: bool,
    /// selections per accessor and check interval (n = one lap per interval; other values make the
    /// eligible set change between the selections of one lap)
    picks_per_tick: usize,
}

const INTERVAL_US: u64 = 20_000;
const TIMEOUT_US: u64 = 8_000;
const INITIAL_US: u64 = 3_000;

pub fn gen(rng: &mut Prng) -> Cfg {
    let n = rng.range(1, 5) as usize;
    let defaults = rng.chance(0.1);
    let ticks = rng.range(50, 300) as usize;
    // per resource a mood that changes now and then, so that runs of equal results occur
    let mut script = vec![];
    for _ in 0..n {
        let mut v = vec![];
        let mut mood = rng.below(5) as u8;
        for _ in 0..ticks {
            if rng.chance(0.25) {
                mood = match rng.below(10) {
                    0..=3 => 0,
                    4 => 1,
                    5..=6 => 2,
                    7 => 3,
                    _ => 4,
                };
            }
            v.push(if rng.chance(0.1) { rng.below(5) as u8 } else { mood });
        }
        script.push(v);
    }
    Cfg { n, fail_thr: if defaults { 2 } else { rng.range(1, 4) as u32 }, succ_thr: if defaults { 1 } else { rng.range(1, 4) as u32 }, defaults, strategy: rng.below(7) as u8, ticks, script, huge_timeout: rng.chance(0.06), picks_per_tick: if rng.chance(0.4) { *rng.pick(&[1usize, 1, 2, 3, n + 1]) } else { n } }
}

fn st(s: HealthStatus) -> u8 {
    match s {
        HealthStatus::Healthy => 0,
        HealthStatus::Degraded => 1,
        HealthStatus::Unhealthy => 2,
        HealthStatus::Unknown => 3,
    }
}
const NAMES: [&str; 4] = ["Healthy", "Degraded", "Unhealthy", "Unknown"];

#[derive(Clone, Debug)]
pub struct Obs {
    tick: usize,
    statuses: Vec<u8>,
    /// (which getter: 0 healthy / 1 usable, returned resource)
    picks: Vec<(u8, Option<usize>)>,
}

pub fn run(cfg: &Cfg, seed: u64) -> (Arc<World>, Vec<Obs>, Vec<usize>) {
    let obs = Arc::new(Mutex::new(Vec::<Obs>::new()));
    let calls = Arc::new(Mutex::new(vec![0usize; cfg.n]));
    let (o2, c2) = (obs.clone(), calls.clone());
    let (w, _stats, ()) = run_sim(seed, |sim| {
        let w = sim.w.clone();
        let script = Arc::new(cfg.script.clone());
        let calls = c2.clone();
        let checker = {
            let script = script.clone();
            move |r: &usize| {
                let r = *r;
                let k = {
                    let mut c = lock(&calls);
                    let k = c[r];
                    c[r] += 1;
                    k
                };
                let res = script[r].get(k).copied().unwrap_or(3);
                async move {
                    match res {
                        0 => {
                            tokio::time::sleep(Duration::from_micros(1000)).await;
                            HealthStatus::Healthy
                        }
                        1 => HealthStatus::Degraded,
                        2 => {
                            tokio::time::sleep(Duration::from_micros(TIMEOUT_US - 1000)).await;
                            HealthStatus::Unhealthy
                        }
                        3 => HealthStatus::Unknown,
                        _ => {
                            tokio::time::sleep(Duration::from_micros(TIMEOUT_US + 3000)).await;
                            HealthStatus::Healthy
                        }
                    }
                }
            }
        };
        let mut b = HealthCheckWrapper::builder().with_checker(checker).with_interval(Duration::from_micros(INTERVAL_US)).with_initial_delay(Duration::from_micros(INITIAL_US)).with_timeout(if cfg.huge_timeout { *[Duration::MAX, Duration::from_secs(u64::MAX / 2)].get(cfg.n % 2).unwrap() } else { Duration::from_micros(TIMEOUT_US) });
        for i in 0..cfg.n {
            b = b.with_context(i, format!("res{i}"));
        }
        if !cfg.defaults {
            b = b.with_failure_threshold(cfg.fail_thr).with_success_threshold(cfg.succ_thr);
        }
        b = b.with_selection_strategy(match cfg.strategy {
            0 => SelectionStrategy::FirstAvailable,
            1 => SelectionStrategy::RoundRobin,
            2 => SelectionStrategy::PreferHealthy,
            3 => SelectionStrategy::Custom(Arc::new(|s: &[HealthStatus]| s.iter().rposition(|x| x.is_usable()))),
            5 => SelectionStrategy::Random,
            // a custom selector that trusts what it is given: the first candidate
            6 => SelectionStrategy::Custom(Arc::new(|s: &[HealthStatus]| if s.is_empty() { None } else { Some(0) })),
            _ => SelectionStrategy::Custom(Arc::new(|s: &[HealthStatus]| if s.len() % 2 == 0 { None } else { Some(0) })),
        });
        let wrapper = b.build();
        let (n, ticks, ppt) = (cfg.n, cfg.ticks, cfg.picks_per_tick);
        let restart = seed % 5 == 0;
        let alternate = (seed >> 3) % 3 == 0;
        // with an unbounded timeout the slow check (11 ms) is not cut off: observe after it
        let observe_after = if cfg.huge_timeout { TIMEOUT_US + 7000 } else { TIMEOUT_US + 1000 };
        let obs = o2.clone();
        let w2 = w.clone();
        let a = sim.actor(0, move || {
            boxed(async move {
                wrapper.start().await;
                if restart {
                    // starting again replaces the background task: still one check per interval
                    wrapper.start().await;
                }
                for tick in 0..ticks {
                    // every check of this tick has finished (or timed out) by now
                    let at = INITIAL_US + tick as u64 * INTERVAL_US + observe_after;
                    tokio::time::sleep_until(w2.t0() + Duration::from_micros(at)).await;
                    let mut statuses = vec![];
                    for i in 0..n {
                        statuses.push(wrapper.get_status(&format!("res{i}")).await.map(st).unwrap_or(9));
                    }
                    let mut picks = vec![];
                    if alternate {
                        // a caller that uses both accessors in turn
                        for _ in 0..ppt {
                            picks.push((1u8, wrapper.get_usable().await));
                            picks.push((0u8, wrapper.get_healthy().await));
                        }
                    } else {
                        for _ in 0..ppt {
                            picks.push((1u8, wrapper.get_usable().await));
                        }
                        for _ in 0..ppt {
                            picks.push((0u8, wrapper.get_healthy().await));
                        }
                    }
                    lock(&obs).push(Obs { tick, statuses, picks });
                }
                wrapper.stop().await;
                w2.note("driver-done");
            })
        });
        sim.start_at(0, a);
        sim.horizon = INITIAL_US + (cfg.ticks as u64 + 3) * INTERVAL_US;
        sim.p_spurious = 0.0;
        sim.poll_cap = 5_000_000;
    });
    let o = lock(&obs).clone();
    let c = lock(&calls).clone();
    (w, o, c)
}

pub fn scenario(sseed: u64, _tier: Tier) -> Report {
    let mut rng = Prng::new(sseed);
    let cfg = gen(&mut rng);
    let (w, obs, calls) = run(&cfg, rng.next());
    let mut rep = judge(&cfg, &obs);
    let log = w.take_log();
    for r in &log {
        if let Ev::ActorPanic { msg, .. } = &r.ev {
            rep.violate("C18:library-panic", msg.clone());
        }
    }
    if obs.len() != cfg.ticks && rep.violations.is_empty() {
        rep.inconclusive = Some(format!("only {} of {} observations", obs.len(), cfg.ticks));
    }
    if calls.iter().any(|c| *c > cfg.ticks + 1) {
        rep.violate("C18:checks-per-interval", format!("the checker was invoked {calls:?} times in {} intervals (one check per resource and interval)", cfg.ticks));
    }
    if calls.iter().any(|c| *c < cfg.ticks) && rep.violations.is_empty() {
        rep.inconclusive = Some(format!("checker was invoked {calls:?} times for {} ticks", cfg.ticks));
    }
    let mut s = Fnv::default();
    for o in &obs {
        for x in &o.statuses {
            s.add(*x as u64);
        }
    }
    s.add(cfg.strategy as u64 * 100 + cfg.fail_thr as u64 * 10 + cfg.succ_thr as u64);
    rep.sig = s.0;
    rep.case = json!({"cfg": format!("{:?}", Cfg { script: vec![], ..cfg.clone() }), "first_ticks": cfg.script.iter().map(|v| v.iter().take(30).cloned().collect::<Vec<u8>>()).collect::<Vec<_>>(),
        "first_observations": obs.iter().take(30).map(|o| o.statuses.clone()).collect::<Vec<_>>()});
    rep
}

pub fn judge(cfg: &Cfg, obs: &[Obs]) -> Report {
    let mut rep = Report::default();
    // reference hysteresis machine per resource
    let mut status = vec![3u8; cfg.n];
    let mut f = vec![0u32; cfg.n];
    let mut s = vec![0u32; cfg.n];
    let mut flips = 0u64;
    let mut timeouts = 0u64;
    let mut wait_healthy = vec![0usize; cfg.n];
    let mut wait_usable = vec![0usize; cfg.n];
    let strat = ["first", "round-robin", "prefer-healthy", "custom-last", "custom-none", "random", "custom-first-candidate"][cfg.strategy as usize];
    'outer: for o in obs {
        for r in 0..cfg.n {
            let res = cfg.script[r][o.tick];
            let before = status[r];
            match res {
                0 => {
                    s[r] += 1;
                    f[r] = 0;
                    if s[r] >= cfg.succ_thr {
                        status[r] = 0;
                    }
                }
                1 => {
                    s[r] += 1;
                    f[r] = 0;
                    status[r] = 1;
                }
                4 if cfg.huge_timeout => {
                    // the slow check is not cut off: it reports healthy
                    s[r] += 1;
                    f[r] = 0;
                    if s[r] >= cfg.succ_thr {
                        status[r] = 0;
                    }
                }
                2 | 4 => {
                    if res == 4 {
                        timeouts += 1;
                    }
                    f[r] += 1;
                    s[r] = 0;
                    if f[r] >= cfg.fail_thr {
                        status[r] = 2;
                    }
                }
                _ => {}
            }
            if status[r] != before {
                flips += 1;
            }
            if o.statuses[r] != status[r] {
                let hist: Vec<u8> = cfg.script[r][..=o.tick].iter().rev().take(12).rev().cloned().collect();
                rep.violate(
                    format!("C18:status:expected-{}-published-{}", NAMES[status[r] as usize], NAMES.get(o.statuses[r] as usize).unwrap_or(&"?")),
                    format!(
                        "res{r} after check #{}: published {} but the thresholds (failure {}, success {}) give {}; last results (0 healthy,1 degraded,2 unhealthy,3 unknown,4 timed out): {:?}",
                        o.tick, NAMES.get(o.statuses[r] as usize).unwrap_or(&"?"), cfg.fail_thr, cfg.succ_thr, NAMES[status[r] as usize], hist
                    ),
                );
                break 'outer;
            }
        }
        // selection
        let healthy: Vec<usize> = (0..cfg.n).filter(|r| status[*r] == 0).collect();
        let usable: Vec<usize> = (0..cfg.n).filter(|r| status[*r] <= 1).collect();
        let mut got_usable = vec![];
        let mut got_healthy = vec![];
        for (which, pick) in &o.picks {
            let (elig, name, got) = if *which == 0 { (&healthy, "get_healthy", &mut got_healthy) } else { (&usable, "get_usable", &mut got_usable) };
            match pick {
                Some(r) => {
                    if !elig.contains(r) {
                        rep.violate(format!("C18:{strat}:{name}-returned-ineligible"), format!("tick {}: {name} returned res{r} whose published status is {}; eligible: {:?}", o.tick, NAMES[status[*r] as usize], elig));
                    }
                    got.push(*r);
                }
                None => {
                    if !elig.is_empty() && (cfg.strategy <= 2 || cfg.strategy >= 5) {
                        rep.violate(format!("C18:{strat}:{name}-returned-none"), format!("tick {}: {name} returned nothing although {:?} qualify", o.tick, elig));
                    }
                }
            }
        }
        if cfg.strategy == 1 {
            // Rotation over a *changing* eligible set: a resource that is eligible at n consecutive
            // selections of one accessor (n = number of resources, i.e. one full lap) must have been
            // returned by one of them, whatever the others did in between.
            for (which, pick) in &o.picks {
                let (elig, name, wait) = if *which == 0 { (&healthy, "get_healthy", &mut wait_healthy) } else { (&usable, "get_usable", &mut wait_usable) };
                for r in 0..cfg.n {
                    if elig.contains(&r) && *pick != Some(r) {
                        wait[r] += 1;
                        if wait[r] >= cfg.n && rep.violations.is_empty() {
                            rep.violate(
                                format!("C18:{strat}:eligible-resource-starved"),
                                format!("tick {}: res{r} was eligible at the last {} {name} selections ({} resources, {} selections per interval) and was returned by none of them", o.tick, wait[r], cfg.n, cfg.picks_per_tick),
                            );
                        }
                    } else {
                        wait[r] = 0;
                    }
                }
                rep.max("longest_wait_of_an_eligible_resource", *wait.iter().max().unwrap_or(&0) as u64);
            }
            for (elig, got, name) in [(&usable, &got_usable, "get_usable"), (&healthy, &got_healthy, "get_healthy")] {
                if !elig.is_empty() && got.len() == cfg.n {
                    // n consecutive selections over a stable eligible set of size m <= n: every eligible
                    // resource appears floor(n/m) or ceil(n/m) times
                    let mut cnt: HashMap<usize, usize> = HashMap::new();
                    for g in got.iter() {
                        *cnt.entry(*g).or_insert(0) += 1;
                    }
                    let (lo, hi) = (cfg.n / elig.len(), (cfg.n + elig.len() - 1) / elig.len());
                    if elig.iter().any(|e| { let c = *cnt.get(e).unwrap_or(&0); c < lo || c > hi }) {
                        rep.violate(format!("C18:{strat}:uneven-rotation"), format!("tick {}: {} consecutive {name} calls over eligible {:?} returned {:?}", o.tick, cfg.n, elig, got));
                    }
                    rep.count("round_robin_windows_checked", 1);
                }
            }
        }
    }
    rep.count("status_flips", flips);
    rep.count("timed_out_checks", timeouts);
    rep.count("intervals", obs.len() as u64);
    rep.bucket(format!("{strat} n={} fail={} succ={}{}", cfg.n, cfg.fail_thr, cfg.succ_thr, if cfg.defaults { " (defaults)" } else if cfg.huge_timeout { " (timeout huge)" } else { "" }));
    rep.nontrivial = flips >= 2 && (timeouts >= 1 || cfg.huge_timeout);
    rep
}

// ---------------------------------------------------------------------------------------
// overrun engine: the check timeout is longer than the interval and some checks take longer than
// the interval, so rounds overrun and ticks are missed. Judged by check *count*, not by time: at
// every quiescent sample (no check of that resource in progress) the published status must be the
// thresholds machine's status after the checks finished so far.
// ---------------------------------------------------------------------------------------

const O_INTERVAL_US: u64 = 5_000;
const O_TIMEOUT_US: u64 = 12_000;

/// latency in us and result of script code c: 0 healthy fast, 1 degraded, 2 unhealthy, 3 unknown,
/// 4 slower than the timeout, 5 healthy but slower than the interval, 6 unhealthy slower than the interval
fn o_code(c: u8) -> (u64, u8) {
    match c {
        0 => (1000, 0),
        1 => (0, 1),
        2 => (2000, 2),
        3 => (0, 3),
        4 => (O_TIMEOUT_US + 3000, 0),
        5 => (8000, 0),
        _ => (9000, 2),
    }
}

pub fn scenario_overrun(sseed: u64, _tier: Tier) -> Report {
    let mut rng = Prng::new(sseed);
    let n = rng.range(1, 3) as usize;
    let (fail_thr, succ_thr) = (rng.range(1, 3) as u32, rng.range(1, 3) as u32);
    let len = 120usize;
    let mut script: Script = vec![];
    for _ in 0..n {
        let mut mood = rng.below(7) as u8;
        let mut v = vec![];
        for _ in 0..len {
            if rng.chance(0.3) {
                mood = *rng.pick(&[0u8, 0, 5, 5, 5, 2, 6, 4, 1, 3]);
            }
            v.push(mood);
        }
        script.push(v);
    }
    let duration_us = 400_000u64;
    struct Shared {
        started: Vec<usize>,
        finished: Vec<usize>,
        in_progress: Vec<bool>,
    }
    let sh = Arc::new(Mutex::new(Shared { started: vec![0; n], finished: vec![0; n], in_progress: vec![false; n] }));
    // (t, resource, finished checks, published status)
    let samples = Arc::new(Mutex::new(Vec::<(u64, usize, usize, u8)>::new()));
    let (sh2, samples2, script2) = (sh.clone(), samples.clone(), Arc::new(script.clone()));
    let (w, _stats, ()) = run_sim(rng.next(), |sim| {
        let w = sim.w.clone();
        let sh = sh2.clone();
        let script = script2.clone();
        struct Guard(Arc<Mutex<Shared>>, usize);
        impl Drop for Guard {
            fn drop(&mut self) {
                let mut s = lock(&self.0);
                s.in_progress[self.1] = false;
                s.finished[self.1] += 1;
            }
        }
        let checker = move |r: &usize| {
            let r = *r;
            let k = {
                let mut s = lock(&sh);
                let k = s.started[r];
                s.started[r] += 1;
                s.in_progress[r] = true;
                k
            };
            let g = Guard(sh.clone(), r);
            let (lat, res) = o_code(script[r].get(k).copied().unwrap_or(3));
            async move {
                let _g = g;
                if lat > 0 {
                    tokio::time::sleep(Duration::from_micros(lat)).await;
                }
                match res {
                    0 => HealthStatus::Healthy,
                    1 => HealthStatus::Degraded,
                    2 => HealthStatus::Unhealthy,
                    _ => HealthStatus::Unknown,
                }
            }
        };
        let mut b = HealthCheckWrapper::builder()
            .with_checker(checker)
            .with_interval(Duration::from_micros(O_INTERVAL_US))
            .with_initial_delay(Duration::from_micros(INITIAL_US))
            .with_timeout(Duration::from_micros(O_TIMEOUT_US))
            .with_failure_threshold(fail_thr)
            .with_success_threshold(succ_thr);
        for i in 0..n {
            b = b.with_context(i, format!("res{i}"));
        }
        let wrapper = b.build();
        let (sh3, samples3, w2) = (sh2.clone(), samples2.clone(), w.clone());
        let a = sim.actor(0, move || {
            boxed(async move {
                wrapper.start().await;
                // sample at x.5 ms: every library event happens at a whole millisecond
                let mut t = 500u64;
                while t < duration_us {
                    tokio::time::sleep_until(w2.t0() + Duration::from_micros(t)).await;
                    for i in 0..n {
                        let status = wrapper.get_status(&format!("res{i}")).await.map(st).unwrap_or(9);
                        let s = lock(&sh3);
                        if !s.in_progress[i] {
                            lock(&samples3).push((t, i, s.finished[i], status));
                        }
                    }
                    t += 1000;
                }
                wrapper.stop().await;
                w2.note("driver-done");
            })
        });
        sim.start_at(0, a);
        sim.horizon = duration_us + 50_000;
        sim.p_spurious = 0.0;
        sim.poll_cap = 5_000_000;
    });
    let mut rep = Report::default();
    let log = w.take_log();
    for r in &log {
        if let Ev::ActorPanic { msg, .. } = &r.ev {
            rep.violate("C18:library-panic", msg.clone());
        }
    }
    // reference machine: status after k finished checks
    let mut model: Vec<Vec<u8>> = vec![];
    for r in 0..n {
        let (mut status, mut f, mut s) = (3u8, 0u32, 0u32);
        let mut v = vec![status];
        for k in 0..len {
            let (lat, res) = o_code(script[r][k]);
            let res = if lat > O_TIMEOUT_US { 2 } else { res };
            match res {
                0 => {
                    s += 1;
                    f = 0;
                    if s >= succ_thr {
                        status = 0;
                    }
                }
                1 => {
                    s += 1;
                    f = 0;
                    status = 1;
                }
                2 => {
                    f += 1;
                    s = 0;
                    if f >= fail_thr {
                        status = 2;
                    }
                }
                _ => {}
            }
            v.push(status);
        }
        model.push(v);
    }
    let samples = lock(&samples).clone();
    let mut distinct = std::collections::HashSet::new();
    let mut flips = 0u64;
    for (t, r, k, status) in &samples {
        let expected = model[*r].get(*k).copied().unwrap_or(3);
        if distinct.insert((*r, *k)) && *k > 0 && model[*r][*k] != model[*r][*k - 1] {
            flips += 1;
        }
        if *status != expected {
            let hist: Vec<u8> = script[*r][..(*k).min(len)].iter().rev().take(10).rev().cloned().collect();
            rep.violate(
                format!("C18:overrun:expected-{}-published-{}", NAMES[expected as usize], NAMES.get(*status as usize).unwrap_or(&"?")),
                format!(
                    "res{r} at t={t}us after {k} finished checks: published {} but the thresholds (failure {fail_thr}, success {succ_thr}) give {}; interval {O_INTERVAL_US}us, timeout {O_TIMEOUT_US}us; last results (0 healthy 1ms, 1 degraded, 2 unhealthy, 3 unknown, 4 slower than the timeout, 5 healthy after 8ms, 6 unhealthy after 9ms): {hist:?}",
                    NAMES.get(*status as usize).unwrap_or(&"?"),
                    NAMES[expected as usize]
                ),
            );
            break;
        }
    }
    let finished: Vec<usize> = lock(&sh).finished.clone();
    let overran = script.iter().zip(finished.iter()).any(|(s, f)| s[..(*f).min(len)].iter().any(|c| *c >= 4));
    if !log.iter().any(|r| matches!(&r.ev, Ev::Note { what } if what == "driver-done")) && rep.violations.is_empty() {
        rep.inconclusive = Some("overrun driver did not finish".into());
    }
    rep.count("overrun_samples", samples.len() as u64);
    rep.count("overrun_checks_finished", finished.iter().sum::<usize>() as u64);
    rep.count("overrun_status_flips", flips);
    rep.bucket(format!("overrun n={n} fail={fail_thr} succ={succ_thr}"));
    rep.nontrivial = overran && flips >= 2;
    let mut s = Fnv::default();
    for (_, r, k, st) in &samples {
        s.add((*r * 1000 + *k) as u64 * 10 + *st as u64);
    }
    rep.sig = s.0;
    rep.case = json!({"engine": "overrun", "n": n, "failure_threshold": fail_thr, "success_threshold": succ_thr, "interval_us": O_INTERVAL_US, "timeout_us": O_TIMEOUT_US,
        "script_head": script.iter().map(|v| v.iter().take(30).cloned().collect::<Vec<u8>>()).collect::<Vec<_>>(), "checks_finished": finished, "samples": samples.len()});
    rep
}

// ---------------------------------------------------------------------------------------
// Engine "stress-rotation": round-robin selection from several threads at once.
//
// A wrapper over n resources of which a fixed subset is healthy / degraded for good (one round of
// checks, then an interval of an hour) is asked for resources by 4-8 tasks on a multi-thread
// runtime, both accessors interleaved. With a stable eligible set a rotation hands out its
// members in strict turn however the callers interleave, so after any number of selections the
// counts of two eligible resources differ by at most one (time-independent).
pub fn stress_rotation(sseed: u64, per_task: u64) -> Report {
    let mut rng = Prng::new(sseed);
    let mut rep = Report::default();
    let n = rng.range(2, 6) as usize;
    // 0 healthy, 1 degraded, 2 unhealthy — at least one healthy
    let mut kinds: Vec<u8> = (0..n).map(|_| *rng.pick(&[0u8, 0, 0, 1, 2])).collect();
    kinds[rng.below(n as u64) as usize] = 0;
    let tasks = *rng.pick(&[4usize, 8]);
    let workers = *rng.pick(&[2usize, 4, 8]);
    let rt = match tokio::runtime::Builder::new_multi_thread().worker_threads(workers).enable_time().build() {
        Ok(rt) => rt,
        Err(e) => {
            rep.inconclusive = Some(format!("cannot build a runtime: {e}"));
            return rep;
        }
    };
    let k2 = kinds.clone();
    let out: Result<(Vec<u64>, Vec<u64>), String> = rt.block_on(async move {
        let kinds = Arc::new(k2);
        let kc = kinds.clone();
        let checker = move |r: &usize| {
            let k = kc[*r];
            async move {
                match k {
                    0 => HealthStatus::Healthy,
                    1 => HealthStatus::Degraded,
                    _ => HealthStatus::Unhealthy,
                }
            }
        };
        let mut b = HealthCheckWrapper::builder()
            .with_checker(checker)
            .with_interval(Duration::from_secs(3600))
            .with_initial_delay(Duration::from_millis(1))
            .with_timeout(Duration::from_secs(5))
            .with_failure_threshold(1)
            .with_success_threshold(1)
            .with_selection_strategy(SelectionStrategy::RoundRobin);
        for i in 0..n {
            b = b.with_context(i, format!("res{i}"));
        }
        let wrapper = Arc::new(b.build());
        wrapper.start().await;
        // wait (bounded) until the one round of checks has been published
        let t0 = std::time::Instant::now();
        loop {
            let mut all = true;
            for i in 0..n {
                let want = match kinds[i] {
                    0 => HealthStatus::Healthy,
                    1 => HealthStatus::Degraded,
                    _ => HealthStatus::Unhealthy,
                };
                if wrapper.get_status(&format!("res{i}")).await != Some(want) {
                    all = false;
                }
            }
            if all {
                break;
            }
            if t0.elapsed() > Duration::from_secs(20) {
                return Err("the first round of checks was not published within 20 s".to_string());
            }
            tokio::time::sleep(Duration::from_millis(2)).await;
        }
        let mut hs = vec![];
        for t in 0..tasks {
            let w = wrapper.clone();
            hs.push(tokio::spawn(async move {
                let mut healthy = vec![0u64; n];
                let mut usable = vec![0u64; n];
                let mut none = 0u64;
                for i in 0..per_task {
                    if (i + t as u64) % 2 == 0 {
                        match w.get_healthy().await {
                            Some(r) => healthy[r] += 1,
                            None => none += 1,
                        }
                    } else {
                        match w.get_usable().await {
                            Some(r) => usable[r] += 1,
                            None => none += 1,
                        }
                    }
                    if i % 64 == 0 {
                        tokio::task::yield_now().await;
                    }
                }
                (healthy, usable, none)
            }));
        }
        let mut healthy = vec![0u64; n];
        let mut usable = vec![0u64; n];
        let mut none = 0u64;
        for h in hs {
            match h.await {
                Ok((a, b, c)) => {
                    for i in 0..n {
                        healthy[i] += a[i];
                        usable[i] += b[i];
                    }
                    none += c;
                }
                Err(e) => return Err(format!("a selecting task died: {e}")),
            }
        }
        wrapper.stop().await;
        if none > 0 {
            return Err(format!("VIOLATION:{none} selections returned nothing although resources qualify"));
        }
        Ok((healthy, usable))
    });
    drop(rt);
    match out {
        Err(m) if m.starts_with("VIOLATION:") => rep.violate("C18:round-robin:threads:returned-none", m[10..].to_string()),
        Err(m) => rep.inconclusive = Some(m),
        Ok((healthy, usable)) => {
            for (name, got, elig) in [
                ("get_healthy", &healthy, (0..n).filter(|i| kinds[*i] == 0).collect::<Vec<_>>()),
                ("get_usable", &usable, (0..n).filter(|i| kinds[*i] <= 1).collect::<Vec<_>>()),
            ] {
                for i in 0..n {
                    if got[i] > 0 && !elig.contains(&i) {
                        rep.violate(format!("C18:round-robin:threads:{name}-returned-ineligible"), format!("{name} returned res{i} {} times although it is published {}", got[i], NAMES[kinds[i] as usize]));
                    }
                }
                let counts: Vec<u64> = elig.iter().map(|i| got[*i]).collect();
                let (lo, hi) = (counts.iter().min().copied().unwrap_or(0), counts.iter().max().copied().unwrap_or(0));
                rep.count("rotations_judged", 1);
                rep.count("selections", counts.iter().sum::<u64>());
                if hi - lo > 1 {
                    rep.violate(
                        "C18:round-robin:threads:uneven-rotation",
                        format!("{tasks} tasks on {workers} workers, stable statuses {:?}: {name} visited the eligible resources {:?} {:?} times (a rotation over a stable set differs by at most one)", kinds, elig, counts),
                    );
                }
            }
        }
    }
    rep.bucket(format!("n={n} tasks={tasks} workers={workers}"));
    rep.nontrivial = kinds.iter().filter(|k| **k == 0).count() >= 2 || kinds.iter().filter(|k| **k <= 1).count() >= 2;
    rep.sig = crate::prng::mix(sseed, n as u64);
    rep.case = json!({"engine": "stress-rotation", "kinds": kinds, "tasks": tasks, "workers": workers, "per_task": per_task});
    rep
}
