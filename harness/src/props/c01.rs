//! C01 (bulkhead bound) and C07 (bulkhead capacity conservation / rejection discipline).
//! One scenario generator, two monitors.

use crate::actors::{caller, caller_linger, Linger};
use crate::prng::{Fnv, Prng};
use crate::report::{Report, Tier};
use crate::sim::{run_sim, What};
use crate::world::{Ev, How, Lat, Out, Outcome, PErr, Rec, Req, Resp, Step, World};
use serde_json::json;
use std::collections::{HashMap, HashSet};
use std::sync::Arc;
use std::time::Duration;
use tower::Layer;
use tower_resilience_bulkhead::{BulkheadError, BulkheadLayer, BulkheadServiceError};

#[derive(Clone, Debug)]
struct Caller {
    arrive_ms: u64,
    lat: Lat,
    out: Out,
    pause: bool,
    drop_at_ms: Option<u64>,
    drop_after_polls: Option<u32>,
    group: u32,
}

#[derive(Clone, Debug)]
pub struct Cfg {
    preset: &'static str,
    n: usize,
    max_wait_ms: Option<u64>,
    callers: Vec<Caller>,
    groups: u32,
}

const T_CANCEL: u64 = 2_000_000;
const T_PROBE: u64 = 2_100_000;
const T_GATE: u64 = 2_200_000;
const T_END: u64 = 2_300_000;

pub fn gen(rng: &mut Prng) -> Cfg {
    let roll = rng.below(100);
    let (preset, n, max_wait_ms, ncallers) = if roll < 8 {
        ("small", 10usize, Some(0u64), rng.range(9, 16))
    } else if roll < 10 {
        ("medium", 50, Some(0), rng.range(48, 56))
    } else if roll < 14 {
        ("reject_when_full", *rng.pick(&[1usize, 2, 3]), Some(0), rng.range(2, 10))
    } else if roll < 17 {
        // a preset customised afterwards: the later setting must win
        ("small+wait", 10usize, Some(*rng.pick(&[5u64, 20])), rng.range(11, 16))
    } else if roll < 20 {
        ("reject_then_wait", *rng.pick(&[1usize, 2]), Some(*rng.pick(&[5u64, 10, 30])), rng.range(3, 10))
    } else if roll < 22 {
        ("wait_then_reject", *rng.pick(&[1usize, 2]), Some(0), rng.range(3, 10))
    } else {
        let n = *rng.pick(&[1usize, 1, 2, 2, 3, 5]);
        let w = *rng.pick(&[None, None, Some(0u64), Some(1), Some(5), Some(10), Some(20), Some(30)]);
        ("builder", n, w, rng.range(2, 14))
    };
    let groups = if rng.chance(0.15) { 2 } else { 1 };
    let burst = rng.chance(0.3);
    let mut callers = vec![];
    for _ in 0..ncallers {
        let arrive_ms = if burst { rng.below(3) * 5 } else { rng.below(11) * 5 };
        let lat = if rng.chance(0.1) { Lat::Never } else { Lat::ms(rng.below(9) * 5) };
        let out = match rng.below(100) {
            0..=59 => Out::Ok,
            60..=84 => Out::Err(1),
            85..=94 => Out::Panic,
            _ => Out::PanicInCall,
        };
        let (mut drop_at_ms, mut drop_after_polls) = (None, None);
        if rng.chance(0.3) {
            if rng.chance(0.6) {
                drop_at_ms = Some(arrive_ms + rng.below(9) * 5);
            } else {
                drop_after_polls = Some(rng.range(1, 3) as u32);
            }
        }
        callers.push(Caller {
            arrive_ms,
            lat,
            out,
            pause: rng.chance(0.3),
            drop_at_ms,
            drop_after_polls,
            group: 1 + rng.below(groups as u64) as u32,
        });
    }
    Cfg { preset, n, max_wait_ms, callers, groups }
}

fn map_err(e: &BulkheadServiceError<PErr>) -> Outcome {
    match e {
        BulkheadServiceError::Inner(p) => Outcome::inner(p),
        BulkheadServiceError::Bulkhead(BulkheadError::Timeout) => Outcome::layer("Timeout"),
        BulkheadServiceError::Bulkhead(BulkheadError::BulkheadFull { .. }) => Outcome::layer("BulkheadFull"),
    }
}

fn build_layer(cfg: &Cfg) -> BulkheadLayer {
    match cfg.preset {
        "small" => BulkheadLayer::small().build(),
        "medium" => BulkheadLayer::medium().build(),
        "reject_when_full" => BulkheadLayer::builder().max_concurrent_calls(cfg.n).reject_when_full().build(),
        "small+wait" => BulkheadLayer::small().max_wait_duration(Duration::from_millis(cfg.max_wait_ms.unwrap())).build(),
        "reject_then_wait" => BulkheadLayer::builder().max_concurrent_calls(cfg.n).reject_when_full().max_wait_duration(Duration::from_millis(cfg.max_wait_ms.unwrap())).build(),
        "wait_then_reject" => BulkheadLayer::builder().max_concurrent_calls(cfg.n).max_wait_duration(Duration::from_millis(25)).reject_when_full().build(),
        _ => {
            let mut b = BulkheadLayer::builder().max_concurrent_calls(cfg.n);
            if let Some(ms) = cfg.max_wait_ms {
                b = b.max_wait_duration(Duration::from_millis(ms));
            }
            b.build()
        }
    }
}

/// probe request ids start here
const PROBE_BASE: u64 = 10_000;

pub fn run(cfg: &Cfg, seed: u64) -> (Arc<World>, crate::sim::SimStats) {
    let (w, stats, ()) = run_sim(seed, |sim| {
        let w = sim.w.clone();
        let layer = build_layer(cfg);
        // one bulkhead per group: separate `layer()` calls are separate instances
        let svcs: Vec<_> = (1..=cfg.groups).map(|g| layer.layer(w.probe(g))).collect();
        for (i, c) in cfg.callers.iter().enumerate() {
            let req = Req::new(i as u64 + 1, 0, vec![Step { lat: c.lat, out: c.out }]);
            let svc = svcs[(c.group - 1) as usize].clone();
            let a = sim.actor(req.id, caller(w.clone(), svc, req, c.pause, map_err));
            sim.start_at(c.arrive_ms * 1000, a);
            if let Some(d) = c.drop_at_ms {
                sim.at(d * 1000, What::Drop(a));
            }
            if let Some(k) = c.drop_after_polls {
                sim.drop_after_polls(a, k);
            }
        }
        // a backend whose readiness fails for a moment and then recovers
        if seed % 7 == 0 {
            let at = 1000 * ((seed >> 8) % 40);
            let k = 1 + (seed >> 16) % 3;
            sim.at(at, What::Do(Box::new(move |w: &Arc<World>| {
                w.ready_faults.store(k, std::sync::atomic::Ordering::SeqCst);
                w.note(format!("the next {k} readiness polls of the wrapped service fail"));
            })));
            // whatever is left of the fault is over before the capacity probe
            sim.at(T_CANCEL, What::Do(Box::new(|w: &Arc<World>| w.ready_faults.store(0, std::sync::atomic::Ordering::SeqCst))));
        }
        let n_hist = sim.n_actors();
        for a in 0..n_hist {
            sim.at_ordered(T_CANCEL, What::Drop(a));
        }
        // probe phase: N+1 gated callers per group at one instant
        let gate = w.new_gate();
        for g in 1..=cfg.groups {
            for j in 0..=(cfg.n as u64) {
                let req = Req::new(PROBE_BASE * g as u64 + j, 0, vec![Step::ok(Lat::Gate(gate))]);
                let svc = svcs[(g - 1) as usize].clone();
                // probers have exact timing expectations: plain clients
                let a = sim.actor(req.id, caller_linger(w.clone(), svc, req, false, Linger::No, map_err));
                sim.start_at(T_PROBE, a);
            }
        }
        sim.at(T_GATE, What::OpenGate(gate));
        sim.at(T_END, What::Nop);
        sim.horizon = T_END + 1_000_000;
    });
    (w, stats)
}

struct ReqInfo {
    #[allow(dead_code)]
    group: u32,
    first_poll: Option<u64>,
    enter: Option<u64>,
    resolved: Option<(u64, Outcome)>,
    cancelled: Option<u64>,
    panicked: bool,
}

/// "Unlimited" spelled as a huge number: the bulkhead must be constructible and admit everybody.
fn extreme_capacity(which: &str, sseed: u64) -> Report {
    let mut rng = Prng::new(sseed);
    let n = *rng.pick(&[usize::MAX, usize::MAX >> 3, (usize::MAX >> 3) + 1, usize::MAX / 2]);
    let reject = rng.chance(0.5);
    let mut rep = Report::default();
    let r = std::panic::catch_unwind(|| {
        run_sim(sseed, |sim| {
            let w = sim.w.clone();
            let b = BulkheadLayer::builder().max_concurrent_calls(n);
            let layer = if reject { b.reject_when_full().build() } else { b.build() };
            let svc = layer.layer(w.probe(1));
            for i in 0..4u64 {
                let req = Req::new(i + 1, 0, vec![Step { lat: Lat::ms(5), out: Out::Ok }]);
                let a = sim.actor(req.id, caller_linger(w.clone(), svc.clone(), req, false, Linger::No, map_err));
                sim.start_at(0, a);
            }
            sim.horizon = 1_000_000;
        })
    });
    match r {
        Err(_) => rep.violate(
            format!("{which}:panic-at-extreme-config"),
            format!("bulkhead with max_concurrent_calls={n}{}: {}", if reject { " (reject_when_full)" } else { "" }, crate::sim::take_last_panic().unwrap_or_default()),
        ),
        Ok((w, _, ())) => {
            let log = w.take_log();
            let entered_at_0 = log.iter().filter(|r| r.t == 0 && matches!(r.ev, Ev::InnerEnter { .. })).count();
            let ok = log.iter().filter(|r| matches!(&r.ev, Ev::Resolve { out: Outcome::Ok { .. }, .. })).count();
            if entered_at_0 != 4 || ok != 4 {
                rep.violate(format!("{which}:extreme-capacity-not-admitted"), format!("bulkhead with max_concurrent_calls={n}: {entered_at_0} of 4 simultaneous callers entered at once, {ok} succeeded"));
            }
            rep.log = log;
        }
    }
    rep.nontrivial = true;
    rep.sig = crate::prng::mix(n as u64, reject as u64);
    rep.count("extreme_capacity_scenarios", 1);
    rep.bucket("extreme capacity".to_string());
    rep.case = json!({"max_concurrent_calls": n.to_string(), "reject_when_full": reject});
    rep
}

pub fn scenario(which: &str, sseed: u64, _tier: Tier) -> Report {
    if sseed % 61 == 0 {
        return extreme_capacity(which, sseed);
    }
    let mut rng = Prng::new(sseed);
    let cfg = gen(&mut rng);
    let (w, stats) = run(&cfg, rng.next());
    let log = w.take_log();
    let mut rep = judge(which, &cfg, &log);
    let mut sig = Fnv::default();
    sig.add(stats.trace_sig);
    for r in &log {
        if let Ev::Resolve { req, out } = &r.ev {
            sig.add(*req);
            sig.add_str(&out.short());
            sig.add(r.t);
        }
    }
    rep.sig = sig.0;
    rep.count("polls", stats.polls);
    rep.count("spurious_polls", stats.spurious);
    rep.count("events", log.len() as u64);
    if stats.hit_poll_cap || stats.hit_horizon {
        rep.inconclusive = Some(format!("poll_cap={} horizon={}", stats.hit_poll_cap, stats.hit_horizon));
    }
    rep.case = json!({"cfg": format!("{cfg:?}")});
    rep.log = log;
    rep
}

pub fn judge(which: &str, cfg: &Cfg, log: &[Rec]) -> Report {
    let mut rep = Report::default();
    let n = cfg.n as i64;
    let group_of = |req: u64| -> u32 {
        if req >= PROBE_BASE {
            (req / PROBE_BASE) as u32
        } else {
            cfg.callers[(req - 1) as usize].group
        }
    };
    let mut info: HashMap<u64, ReqInfo> = HashMap::new();
    let mut inflight: HashMap<u32, i64> = HashMap::new();
    let mut queued: HashMap<u32, HashSet<u64>> = HashMap::new();
    let mut max_inflight = 0i64;
    let mut any_queued = false;
    let mut any_rejected = false;
    let (mut hist_queued, mut hist_rejected) = (false, false);
    let mut fault_seen = false;

    for (idx, r) in log.iter().enumerate() {
        match &r.ev {
            Ev::Arrive { req } => {
                info.insert(*req, ReqInfo { group: group_of(*req), first_poll: None, enter: None, resolved: None, cancelled: None, panicked: false });
            }
            Ev::FirstPoll { req } => {
                let g = group_of(*req);
                let i = info.get_mut(req).unwrap();
                i.first_poll = Some(r.t);
                let fl = *inflight.get(&g).unwrap_or(&0);
                let q = queued.entry(g).or_default();
                if which == "C07" && fl < n && q.is_empty() {
                    // (b) must be admitted at once: its InnerEnter follows at this very instant
                    let admitted = log[idx + 1..]
                        .iter()
                        .take_while(|x| x.t == r.t)
                        .any(|x| matches!(&x.ev, Ev::InnerEnter { req: q, .. } if q == req));
                    if !admitted {
                        rep.violate(
                            "C07:not-admitted-at-once",
                            format!("r{req} arrived at t={}us with {fl} of {n} in flight and nobody queued, but did not reach the inner service at that instant", r.t),
                        );
                    }
                    rep.count("immediate_admission_checks", 1);
                }
                q.insert(*req);
            }
            Ev::InnerEnter { req, group, .. } => {
                let c = inflight.entry(*group).or_insert(0);
                *c += 1;
                max_inflight = max_inflight.max(*c);
                if which == "C01" && *c > n {
                    rep.violate("C01:over-admission", format!("{} calls in flight through one bulkhead with max_concurrent_calls={} (r{req} entered at t={}us)", *c, n, r.t));
                }
                queued.entry(*group).or_default().remove(req);
                if let Some(i) = info.get_mut(req) {
                    if i.enter.is_some() && which == "C07" {
                        rep.violate("C07:double-inner-call", format!("r{req} reached the inner service twice"));
                    }
                    i.enter = Some(r.t);
                    if let Some(fp) = i.first_poll {
                        if r.t > fp {
                            any_queued = true;
                            hist_queued |= *req < PROBE_BASE;
                        }
                        // a caller that cannot get a slot within max_wait must be rejected, not admitted later
                        if let (Some(ms), "C07") = (cfg.max_wait_ms, which) {
                            if r.t > fp + ms * 1000 {
                                rep.violate("C07:admitted-after-max-wait", format!("r{req} arrived t={fp}us with max_wait={ms}ms but was admitted at t={}us instead of being rejected", r.t));
                            }
                        }
                    }
                    if which == "C07" {
                        if let Some(tc) = i.cancelled {
                            rep.violate("C07:cancelled-reached-inner", format!("r{req} was cancelled at t={tc}us while waiting but reached the inner service at t={}us", r.t));
                        }
                        if i.resolved.is_some() {
                            rep.violate("C07:rejected-reached-inner", format!("r{req} had already been answered but reached the inner service at t={}us", r.t));
                        }
                    }
                }
            }
            Ev::InnerExit { group, how, .. } => {
                *inflight.entry(*group).or_insert(0) -= 1;
                if matches!(how, How::Panicked | How::Dropped) {
                    fault_seen = true;
                }
            }
            Ev::Resolve { req, out } => {
                let g = group_of(*req);
                queued.entry(g).or_default().remove(req);
                let i = info.get_mut(req).unwrap();
                i.resolved = Some((r.t, out.clone()));
                if let Outcome::Layer { kind, .. } = out {
                    any_rejected = true;
                    hist_rejected |= *req < PROBE_BASE;
                    fault_seen = true;
                    if which == "C07" {
                        if kind != "Timeout" {
                            rep.violate("C07:wrong-rejection-variant", format!("r{req} rejected with {kind}, expected the bulkhead timeout error"));
                        }
                        match (cfg.max_wait_ms, i.first_poll) {
                            (None, _) => rep.violate("C07:rejected-without-timeout", format!("r{req} rejected although no max_wait_duration is configured")),
                            (Some(ms), Some(fp)) => {
                                if r.t != fp + ms * 1000 {
                                    rep.violate(
                                        "C07:rejection-instant",
                                        format!("r{req} arrived t={fp}us, max_wait={ms}ms, rejected at t={}us (expected {})", r.t, fp + ms * 1000),
                                    );
                                }
                            }
                            _ => {}
                        }
                        if i.enter.is_some() {
                            rep.violate("C07:rejected-reached-inner", format!("r{req} was rejected but had reached the inner service"));
                        }
                    }
                }
            }
            Ev::Cancelled { req } => {
                let g = group_of(*req);
                queued.entry(g).or_default().remove(req);
                if let Some(i) = info.get_mut(req) {
                    if i.enter.is_none() {
                        i.cancelled = Some(r.t);
                        if let (Some(ms), Some(fp), "C07") = (cfg.max_wait_ms, i.first_poll, which) {
                            if r.t > fp + ms * 1000 && i.resolved.is_none() {
                                rep.violate("C07:waited-beyond-max-wait", format!("r{req} arrived t={fp}us with max_wait={ms}ms and was still waiting (neither admitted nor rejected) at t={}us", r.t));
                            }
                        }
                    }
                    if r.t < T_CANCEL {
                        fault_seen = true;
                    }
                }
            }
            Ev::ActorPanic { req, msg } => {
                let g = group_of(*req);
                queued.entry(g).or_default().remove(req);
                if let Some(i) = info.get_mut(req) {
                    i.panicked = true;
                    // a panic that is not the scripted one is the library's
                    if !msg.contains("probe: scripted panic") && which == "C07" {
                        rep.violate("C07:library-panic", format!("r{req}: {msg}"));
                    }
                }
                fault_seen = true;
            }
            _ => {}
        }
    }

    // probe phase (C07 a): exactly N of the N+1 probers per group are inside at T_PROBE
    let mut probe_ran = false;
    if which == "C07" {
        for g in 1..=cfg.groups {
            let ids: Vec<u64> = (0..=cfg.n as u64).map(|j| PROBE_BASE * g as u64 + j).collect();
            let entered_at_probe = ids.iter().filter(|id| info.get(id).and_then(|i| i.enter) == Some(T_PROBE)).count();
            probe_ran = true;
            if entered_at_probe != cfg.n {
                rep.violate(
                    "C07:capacity-lost",
                    format!("after the history (all calls finished or cancelled) a burst of {} callers got only {} into the inner service at once, max_concurrent_calls={}", cfg.n + 1, entered_at_probe, cfg.n),
                );
            }
            // the one left over: rejected exactly max_wait later, or admitted when the gate opens
            for id in &ids {
                let i = match info.get(id) {
                    Some(i) => i,
                    None => continue,
                };
                if i.enter == Some(T_PROBE) {
                    continue;
                }
                match cfg.max_wait_ms {
                    Some(ms) if ms * 1000 < T_GATE - T_PROBE => {
                        let ok = matches!(&i.resolved, Some((t, Outcome::Layer { kind, .. })) if *t == T_PROBE + ms * 1000 && kind == "Timeout");
                        if !ok && entered_at_probe == cfg.n {
                            rep.violate("C07:probe-overflow-not-rejected", format!("prober r{id} beyond capacity: enter={:?} resolved={:?}, expected Timeout at {}", i.enter, i.resolved, T_PROBE + ms * 1000));
                        }
                    }
                    _ => {
                        if i.enter != Some(T_GATE) && entered_at_probe == cfg.n {
                            rep.violate("C07:probe-waiter-not-admitted", format!("prober r{id} waiting without timeout was not admitted when a slot was released: enter={:?} resolved={:?}", i.enter, i.resolved));
                        }
                    }
                }
            }
        }
    }
    rep.max("max_in_flight", max_inflight as u64);
    rep.bucket(format!("preset={} n={} wait={:?}", cfg.preset, cfg.n, cfg.max_wait_ms));
    if any_queued {
        rep.count("scenarios_with_queueing", 1);
    }
    if any_rejected {
        rep.count("scenarios_with_rejection", 1);
    }
    rep.nontrivial = match which {
        "C01" => hist_queued || hist_rejected,
        _ => fault_seen && probe_ran,
    };
    rep
}

// ---------------------------------------------------------------------------------------
// E-STRESS for C01: real threads, real clock, only the time-independent bound is judged
// ---------------------------------------------------------------------------------------

/// One round = a burst phase on a `reject_when_full`-style bulkhead (admission decisions racing on
/// different worker threads) followed by a general phase with a random configuration.
pub fn stress(sseed: u64, calls: u64) -> Report {
    let mut a = stress_one(sseed, calls / 4, Some(true));
    if !a.violations.is_empty() || a.inconclusive.is_some() {
        return a;
    }
    let b = stress_one(sseed ^ 0x5eed, calls, None);
    for (k, v) in &b.counters {
        a.count(k, *v);
    }
    for (k, v) in &b.maxima {
        a.max(k, *v);
    }
    a.buckets.extend(b.buckets.iter().cloned());
    a.violations.extend(b.violations.iter().cloned());
    a.inconclusive = b.inconclusive.clone();
    a.nontrivial = a.nontrivial || b.nontrivial;
    a.sig = crate::prng::mix(a.sig, b.sig);
    a.case = json!({"burst_phase": a.case, "general_phase": b.case});
    a
}

fn stress_one(sseed: u64, calls: u64, force_burst_reject: Option<bool>) -> Report {
    use tower::Service;
    let mut rng = Prng::new(sseed);
    // burst mode: all tasks are released together by a barrier before every call, so that their
    // admission decisions really race on different worker threads
    let burst = force_burst_reject.unwrap_or_else(|| rng.chance(0.3));
    let n = if burst { *rng.pick(&[1usize, 1, 2, 3]) } else { *rng.pick(&[1usize, 2, 3, 5, 8]) };
    let wait = if force_burst_reject.is_some() {
        Some(0u64)
    } else if burst {
        *rng.pick(&[Some(0u64), None, Some(1)])
    } else {
        *rng.pick(&[None, Some(0u64), Some(1), Some(3)])
    };
    let workers = *rng.pick(&[4usize, 8, 16]);
    let mut rep = Report::default();
    let rt = tokio::runtime::Builder::new_multi_thread().worker_threads(workers).enable_time().build().unwrap();
    let w = World::with_logging(false);
    let mut b = BulkheadLayer::builder().max_concurrent_calls(n);
    if let Some(ms) = wait {
        b = b.max_wait_duration(Duration::from_millis(ms));
    }
    let svc = b.build().layer(w.probe(1));
    let tasks = if burst { 2 * workers as u64 } else { 64u64 };
    let per = if burst { (calls / tasks).min(1500) } else { calls / tasks };
    let barrier = Arc::new(tokio::sync::Barrier::new(tasks as usize));
    let started = std::time::Instant::now();
    let done = rt.block_on(async { tokio::time::timeout(Duration::from_secs(120), async {
        let mut hs = vec![];
        for t in 0..tasks {
            let svc = svc.clone();
            let mut r = Prng::new(sseed ^ t);
            let barrier = barrier.clone();
            hs.push(tokio::spawn(async move {
                let mut admitted = 0u64;
                for i in 0..per {
                    let mut s = svc.clone();
                    if burst {
                        barrier.wait().await;
                    }
                    let lat = if burst { Lat::Us(r.range(20, 120)) } else if r.chance(0.5) { Lat::Us(0) } else { Lat::Us(r.range(1, 300)) };
                    let out = if r.chance(0.8) { Out::Ok } else { Out::Err(1) };
                    let req = Req::new(t * 1_000_000 + i, 0, vec![Step { lat, out }]);
                    let ready = std::future::poll_fn(|cx| s.poll_ready(cx)).await;
                    if ready.is_err() {
                        continue;
                    }
                    let fut = s.call(req);
                    if !burst && r.chance(0.15) {
                        // cancel after a short while
                        let h = tokio::spawn(fut);
                        tokio::time::sleep(Duration::from_micros(r.range(0, 200))).await;
                        h.abort();
                        let _ = h.await;
                    } else if let Ok(_) | Err(BulkheadServiceError::Inner(_)) = fut.await {
                        admitted += 1;
                    }
                    if r.chance(0.2) {
                        tokio::task::yield_now().await;
                    }
                }
                admitted
            }));
        }
        let mut total = 0;
        for h in hs {
            total += h.await.unwrap_or(0);
        }
        total
    }).await });
    let done = match done {
        Ok(d) => d,
        Err(_) => {
            rt.shutdown_background();
            rep.inconclusive = Some("stress run did not finish within 120s of wall clock".into());
            return rep;
        }
    };
    let st = crate::world::lock(&w.st);
    let maxf = *st.max_inflight.get(&1).unwrap_or(&0);
    let left = *st.inflight.get(&1).unwrap_or(&0);
    drop(st);
    if maxf > n as i64 {
        rep.violate("C01:over-admission", format!("stress: observed {maxf} concurrent inner calls with max_concurrent_calls={n}"));
    }
    if left != 0 {
        rep.violate("C01:harness-accounting", format!("stress: in-flight counter ended at {left}"));
    }
    rep.nontrivial = maxf >= n as i64;
    rep.sig = crate::prng::mix(sseed, maxf as u64);
    rep.count("stress_calls_admitted", done);
    rep.max("max_in_flight", maxf as u64);
    rep.case = json!({"engine":"stress","n":n,"max_wait_ms":wait,"workers":workers,"calls":per*tasks,"admitted":done,"max_in_flight":maxf,"wall_ms":started.elapsed().as_millis() as u64});
    rep.bucket(format!("stress{} n={n} wait={wait:?} workers={workers}", if burst { " burst" } else { "" }));
    drop(rt);
    rep
}

// ---------------------------------------------------------------------------------------
// thread stress: K OS threads, each with its own clone, released together by a spin barrier, take
// their admission decisions at the same instant; admitted calls stay inside the inner service
// until every thread has its verdict, so the high-water mark is exact
// ---------------------------------------------------------------------------------------

struct HoldState {
    inflight: std::sync::atomic::AtomicI64,
    high: std::sync::atomic::AtomicI64,
    released_round: std::sync::atomic::AtomicU64,
    entered: Vec<std::sync::atomic::AtomicBool>,
    admitted_total: std::sync::atomic::AtomicU64,
}

#[derive(Clone)]
struct Hold(Arc<HoldState>);

struct HoldFut {
    st: Arc<HoldState>,
    who: usize,
    round: u64,
    inside: bool,
}
impl std::future::Future for HoldFut {
    type Output = Result<Resp, PErr>;
    fn poll(mut self: std::pin::Pin<&mut Self>, _cx: &mut std::task::Context<'_>) -> std::task::Poll<Self::Output> {
        use std::sync::atomic::Ordering::SeqCst;
        if !self.inside {
            self.inside = true;
            let now = self.st.inflight.fetch_add(1, SeqCst) + 1;
            self.st.high.fetch_max(now, SeqCst);
            self.st.admitted_total.fetch_add(1, SeqCst);
            self.st.entered[self.who].store(true, SeqCst);
        }
        if self.st.released_round.load(SeqCst) >= self.round {
            self.inside = false;
            self.st.inflight.fetch_sub(1, SeqCst);
            self.round = u64::MAX;
            return std::task::Poll::Ready(Ok(Resp { serial: 0, req_id: self.who as u64, payload: 0, src: 0 }));
        }
        std::task::Poll::Pending
    }
}
impl Drop for HoldFut {
    fn drop(&mut self) {
        if self.inside {
            self.st.inflight.fetch_sub(1, std::sync::atomic::Ordering::SeqCst);
        }
    }
}
impl tower::Service<Req> for Hold {
    type Response = Resp;
    type Error = PErr;
    type Future = HoldFut;
    fn poll_ready(&mut self, _: &mut std::task::Context<'_>) -> std::task::Poll<Result<(), PErr>> {
        std::task::Poll::Ready(Ok(()))
    }
    fn call(&mut self, r: Req) -> HoldFut {
        HoldFut { st: self.0.clone(), who: r.id as usize, round: r.payload, inside: false }
    }
}

pub fn stress_threads(sseed: u64, rounds: u64) -> Report {
    stress_threads_for("C01", sseed, rounds)
}

/// `prop` = "C07": only the configuration without a wait limit, polled by plain threads outside any
/// runtime (a bulkhead without `max_wait_duration` needs no clock); judged on "every caller is
/// admitted sooner or later and nothing panics".
pub fn stress_threads_for(prop: &str, sseed: u64, rounds: u64) -> Report {
    use std::future::Future;
    use std::sync::atomic::{AtomicBool, AtomicI64, AtomicU64, AtomicUsize, Ordering::SeqCst};
    use std::task::{Context, Poll, Wake, Waker};
    use tower::Service;
    struct Noop;
    impl Wake for Noop {
        fn wake(self: Arc<Self>) {}
    }
    let mut rng = Prng::new(sseed);
    let threads = *rng.pick(&[4usize, 8, 8, 12]);
    let n = *rng.pick(&[1usize, 1, 2, 3]);
    let reject = prop == "C01" && rng.chance(0.7);
    // without a wait limit the bulkhead needs no timer: poll it outside any runtime
    let no_runtime = !reject && (prop == "C07" || rng.chance(0.5));
    let panicked = Arc::new(std::sync::Mutex::new(None::<String>));
    let mut rep = Report::default();
    let rt = match tokio::runtime::Builder::new_multi_thread().worker_threads(2).enable_time().build() {
        Ok(rt) => rt,
        Err(e) => {
            rep.inconclusive = Some(format!("cannot build a runtime: {e}"));
            return rep;
        }
    };
    let st = Arc::new(HoldState {
        inflight: AtomicI64::new(0),
        high: AtomicI64::new(0),
        released_round: AtomicU64::new(0),
        entered: (0..threads).map(|_| AtomicBool::new(false)).collect(),
        admitted_total: AtomicU64::new(0),
    });
    let mut b = BulkheadLayer::builder().max_concurrent_calls(n);
    if reject {
        b = b.reject_when_full();
    }
    let svc = b.build().layer(Hold(st.clone()));
    // sense-reversing spin barrier
    let arrived = Arc::new(AtomicUsize::new(0));
    let generation = Arc::new(AtomicU64::new(0));
    let decided = Arc::new(AtomicUsize::new(0));
    let bad_round = Arc::new(AtomicU64::new(0));
    let stuck = Arc::new(AtomicBool::new(false));
    let slow = Arc::new(AtomicU64::new(0));
    let started = std::time::Instant::now();
    let mut hs = vec![];
    for t in 0..threads {
        let (svc, st, arrived, generation, decided, bad_round) = (svc.clone(), st.clone(), arrived.clone(), generation.clone(), decided.clone(), bad_round.clone());
        let stuck = stuck.clone();
        let slow = slow.clone();
        let handle = rt.handle().clone();
        let panicked = panicked.clone();
        hs.push(std::thread::spawn(move || {
            let _g = if no_runtime { None } else { Some(handle.enter()) };
            let waker = Waker::from(Arc::new(Noop));
            let mut cx = Context::from_waker(&waker);
            let mut rejected = 0u64;
            let spin = |gen: &AtomicU64, want: u64| {
                let mut k = 0u64;
                let t0 = std::time::Instant::now();
                while gen.load(SeqCst) < want {
                    k += 1;
                    if k % 4096 == 0 {
                        std::thread::yield_now();
                        if t0.elapsed() > Duration::from_secs(60) {
                            return false;
                        }
                    }
                    std::hint::spin_loop();
                }
                true
            };
            for round in 1..=rounds {
                let mut s = svc.clone();
                let _ = s.poll_ready(&mut cx);
                st.entered[t].store(false, SeqCst);
                // phase 1: everybody ready
                if arrived.fetch_add(1, SeqCst) + 1 == threads {
                    arrived.store(0, SeqCst);
                    decided.store(0, SeqCst);
                    generation.store(3 * round - 2, SeqCst);
                } else {
                    if !spin(&generation, 3 * round - 2) {
                        stuck.store(true, SeqCst);
                        return rejected;
                    }
                }
                let mut req = Req::new(t as u64, 0, vec![]);
                req.payload = round;
                let round_started = std::time::Instant::now();
                let mut fut = Box::pin(s.call(req));
                // poll until this call is rejected/finished or is inside the inner service
                let mut res = None;
                let mut waited = 0u64;
                let mut gave_up = false;
                loop {
                    let polled = std::panic::catch_unwind(std::panic::AssertUnwindSafe(|| fut.as_mut().poll(&mut cx)));
                    let polled = match polled {
                        Ok(p) => p,
                        Err(_) => {
                            let msg = crate::sim::take_last_panic().unwrap_or_else(|| "panic".into());
                            panicked.lock().unwrap_or_else(|e| e.into_inner()).get_or_insert(msg);
                            bad_round.compare_exchange(0, u64::MAX, SeqCst, SeqCst).ok();
                            gave_up = true;
                            break;
                        }
                    };
                    match polled {
                        Poll::Ready(x) => {
                            res = Some(x);
                            break;
                        }
                        Poll::Pending => {
                            if st.entered[t].load(SeqCst) {
                                break;
                            }
                            // queued behind the admitted ones: that is a verdict too. With
                            // reject_when_full the rejection needs a timer tick (about 1 ms); a call
                            // that is neither rejected nor admitted after far longer than that is
                            // treated as queued (waiting too long is C07's business, not C01's)
                            waited += 1;
                            if !reject && waited > 200 {
                                break;
                            }
                            if reject && waited % 256 == 0 && round_started.elapsed() > Duration::from_millis(200) {
                                // does not happen on a bulkhead that rejects: stop the run soon
                                if slow.fetch_add(1, SeqCst) >= 3 {
                                    bad_round.compare_exchange(0, u64::MAX, SeqCst, SeqCst).ok();
                                }
                                break;
                            }
                            std::hint::spin_loop();
                        }
                    }
                }
                // phase 2: everybody has a verdict; the last one checks the high-water mark and releases
                if decided.fetch_add(1, SeqCst) + 1 == threads {
                    if st.high.load(SeqCst) > n as i64 && bad_round.load(SeqCst) == 0 {
                        bad_round.store(round, SeqCst);
                    }
                    st.released_round.store(round, SeqCst);
                    generation.store(3 * round - 1, SeqCst);
                } else {
                    if !spin(&generation, 3 * round - 1) {
                        stuck.store(true, SeqCst);
                        return rejected;
                    }
                }
                if res.is_none() && !gave_up {
                    let mut k = 0u64;
                    loop {
                        if let Poll::Ready(x) = fut.as_mut().poll(&mut cx) {
                            res = Some(x);
                            break;
                        }
                        k += 1;
                        if k % 1024 == 0 {
                            std::thread::yield_now();
                        }
                        if k > 200_000_000 {
                            break;
                        }
                    }
                }
                if !matches!(res, Some(Ok(_))) {
                    rejected += 1;
                }
                if gave_up {
                    std::mem::forget(fut);
                } else {
                    drop(fut);
                }
                // phase 3: everybody finished
                if arrived.fetch_add(1, SeqCst) + 1 == threads {
                    arrived.store(0, SeqCst);
                    generation.store(3 * round, SeqCst);
                } else {
                    if !spin(&generation, 3 * round) {
                        stuck.store(true, SeqCst);
                        return rejected;
                    }
                }
                if bad_round.load(SeqCst) != 0 {
                    break;
                }
            }
            rejected
        }));
    }
    let mut rejected = 0;
    for h in hs {
        rejected += h.join().unwrap_or(0);
    }
    rt.shutdown_background();
    let high = st.high.load(SeqCst);
    if high > n as i64 {
        rep.violate(
            "C01:over-admission",
            format!("threads: {high} calls were inside the inner service at once through a bulkhead with max_concurrent_calls={n} ({}; {threads} threads released together, round {})", if reject { "reject_when_full" } else { "unbounded wait" }, bad_round.load(SeqCst)),
        );
    }
    if let Some(msg) = panicked.lock().unwrap_or_else(|e| e.into_inner()).clone() {
        rep.violate(
            format!("{prop}:library-panic"),
            format!("threads: a call through a bulkhead with max_concurrent_calls={n} and {} panicked when polled {}: {msg}", if reject { "reject_when_full" } else { "no wait limit" }, if no_runtime { "by a plain thread outside any runtime" } else { "inside a runtime context" }),
        );
    }
    if prop == "C07" && !no_runtime {
        rep.inconclusive = Some("C07 thread stress is defined for the clock-free configuration only".into());
    }
    if prop == "C07" && high < n as i64 && rep.violations.is_empty() && threads >= n {
        rep.violate("C07:capacity-not-used", format!("threads: {threads} callers released together on an idle bulkhead with max_concurrent_calls={n} and no wait limit, but at most {high} were ever inside the inner service"));
    }
    if prop == "C07" && !reject && rejected > 0 && rep.violations.is_empty() {
        rep.violate("C07:caller-lost", format!("threads: {rejected} calls through a bulkhead without a wait limit did not end with the inner service's answer"));
    }
    if stuck.load(SeqCst) {
        if rep.violations.is_empty() {
            rep.inconclusive = Some("thread stress: a thread waited 60 s at a barrier (a call never finished)".into());
        }
    } else if st.inflight.load(SeqCst) != 0 {
        rep.violate("C01:harness-accounting", format!("threads: in-flight counter ended at {}", st.inflight.load(SeqCst)));
    }
    rep.nontrivial = high >= n as i64 && (rejected > 0 || prop == "C07");
    rep.sig = crate::prng::mix(sseed, high as u64);
    rep.count("thread_rounds", rounds);
    rep.count("thread_calls_neither_rejected_nor_admitted_within_200ms", slow.load(SeqCst));
    rep.count("thread_calls_admitted", st.admitted_total.load(SeqCst));
    rep.count("thread_calls_rejected_or_queued", rejected);
    rep.max("max_in_flight_threads", high as u64);
    rep.case = json!({"engine": "stress-threads", "n": n, "reject_when_full": reject, "threads": threads, "rounds": rounds, "admitted": st.admitted_total.load(SeqCst), "max_in_flight": high, "wall_ms": started.elapsed().as_millis() as u64});
    rep.bucket(format!("threads n={n} reject={reject} threads={threads}{}", if no_runtime { " no-runtime" } else { "" }));
    rep
}
