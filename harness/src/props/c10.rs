//! C10: cache hits return the latest unexpired value of the right key; size bounded; victim
//! chosen by the configured policy. Forking reference cache driven by the event log.

use crate::actors::caller;
use crate::prng::{Fnv, Prng};
use crate::report::{Report, Tier};
use crate::sim::{run_sim, What};
use crate::world::{Ev, Lat, Out, Outcome, PErr, Rec, Req, Resp, Step, World};
use serde_json::json;
use std::collections::HashMap;
use std::sync::Arc;
use std::time::Duration;
use tower::Layer;
use tower_resilience_cache::{CacheError, CacheLayer, EvictionPolicy, SharedCacheLayer};

#[derive(Clone, Copy, Debug, PartialEq, Eq)]
pub enum Pol {
    Lru,
    Lfu,
    Fifo,
}

#[derive(Clone, Debug)]
struct R {
    arrive_us: u64,
    key: u32,
    lat_us: u64,
    fail: bool,
    svc: usize,
    drop_at_us: Option<u64>,
}

#[derive(Clone, Debug)]
pub struct Cfg {
    pol: Pol,
    default_policy: bool,
    max_size: usize,
    ttl_us: Option<u64>,
    shared: bool,
    n_svcs: usize,
    n_keys: u32,
    reqs: Vec<R>,
    probe_from: usize,
}

pub fn gen(rng: &mut Prng) -> Cfg {
    let pol = *rng.pick(&[Pol::Lru, Pol::Lfu, Pol::Fifo]);
    let default_policy = pol == Pol::Lru && rng.chance(0.3);
    let max_size = rng.range(1, 4) as usize;
    let ttl_us = *rng.pick(&[None, None, Some(10_000u64), Some(10_000), Some(1_000_000), Some(0), Some(1000)]);
    let n_svcs = if rng.chance(0.3) { 2 } else { 1 };
    let shared = rng.chance(0.5);
    let n_keys = rng.range(3, 6) as u32;
    let steps = rng.range(20, 120);
    let overlap = *rng.pick(&[0.0, 0.15, 0.4]);
    let mut t = 0u64;
    let mut reqs = vec![];
    let ttl = ttl_us.unwrap_or(10_000).max(2000);
    // skew: a hot key makes LFU frequencies differ
    let hot = rng.below(n_keys as u64) as u32;
    for _ in 0..steps {
        let gap = match rng.below(12) {
            0..=3 => 0,
            4..=6 => 1000,
            7 => ttl - 1000,
            8 => ttl,
            9 => ttl + 1000,
            10 => 2000,
            _ => ttl / 2,
        };
        t += gap;
        let key = if rng.chance(0.3) { hot } else { rng.below(n_keys as u64) as u32 };
        let lat_us = if rng.chance(overlap) { *rng.pick(&[1000u64, 2000, 5000, ttl]) } else { 0 };
        reqs.push(R {
            arrive_us: t,
            key,
            lat_us,
            fail: rng.chance(0.15),
            svc: rng.below(n_svcs as u64) as usize,
            drop_at_us: if lat_us > 0 && rng.chance(0.1) { Some(t + lat_us / 2) } else { None },
        });
    }
    // closing probe of all keys on every service, 1 ms apart, after everything settled
    let probe_from = reqs.len();
    t += 20_000 + ttl.min(20_000) / 2;
    for s in 0..n_svcs {
        for k in 0..n_keys {
            t += 1000;
            reqs.push(R { arrive_us: t, key: k, lat_us: 0, fail: true, svc: s, drop_at_us: None });
        }
    }
    Cfg { pol, default_policy, max_size, ttl_us, shared, n_svcs, n_keys, reqs, probe_from }
}

fn map_err(e: &CacheError<PErr>) -> Outcome {
    match e {
        CacheError::Inner(p) => Outcome::inner(p),
    }
}

pub fn run(cfg: &Cfg, seed: u64) -> (Arc<World>, crate::sim::SimStats) {
    let (w, stats, ()) = run_sim(seed, |sim| {
        let w = sim.w.clone();
        let policy = match cfg.pol {
            Pol::Lru => EvictionPolicy::Lru,
            Pol::Lfu => EvictionPolicy::Lfu,
            Pol::Fifo => EvictionPolicy::Fifo,
        };
        let mut end = 0;
        macro_rules! go {
            ($layer:expr) => {{
                let svcs: Vec<_> = (0..cfg.n_svcs).map(|s| $layer.layer(w.probe(s as u32 + 1))).collect();
                for (i, r) in cfg.reqs.iter().enumerate() {
                    let req = Req::new(i as u64 + 1, r.key, vec![Step { lat: Lat::Us(r.lat_us), out: if r.fail { Out::Err(1) } else { Out::Ok } }]);
                    let a = sim.actor(req.id, caller(w.clone(), svcs[r.svc].clone(), req, false, map_err));
                    sim.start_at(r.arrive_us, a);
                    if let Some(d) = r.drop_at_us {
                        sim.at(d, What::Drop(a));
                    }
                    end = end.max(r.arrive_us + r.lat_us);
                }
            }};
        }
        if cfg.shared && seed % 2 == 0 {
            // the conversion path: a per-service layer turned into a shared one
            let mut b = CacheLayer::<Req, u32>::builder().max_size(cfg.max_size).key_extractor(|r: &Req| r.key);
            if !cfg.default_policy {
                b = b.eviction_policy(policy);
            }
            if let Some(t) = cfg.ttl_us {
                b = b.ttl(Duration::from_micros(t));
            }
            let layer = b.build().shared::<Resp>();
            go!(layer);
        } else if cfg.shared {
            let mut b = SharedCacheLayer::<Req, u32, Resp>::builder().max_size(cfg.max_size).key_extractor(|r: &Req| r.key);
            if !cfg.default_policy {
                b = b.eviction_policy(policy);
            }
            if let Some(t) = cfg.ttl_us {
                b = b.ttl(Duration::from_micros(t));
            }
            let layer = b.build();
            go!(layer);
        } else {
            let mut b = CacheLayer::<Req, u32>::builder().max_size(cfg.max_size).key_extractor(|r: &Req| r.key);
            if !cfg.default_policy {
                b = b.eviction_policy(policy);
            }
            if let Some(t) = cfg.ttl_us {
                b = b.ttl(Duration::from_micros(t));
            }
            let layer = b.build();
            go!(layer);
        }
        sim.horizon = end + 10_000_000;
    });
    (w, stats)
}

// ---------------------------------------------------------------------------------------
// forking reference cache
// ---------------------------------------------------------------------------------------

#[derive(Clone, Debug, PartialEq)]
struct E {
    key: u32,
    serial: u64,
    t_ins: u64,
    freq: u32,
}

#[derive(Clone, Debug, PartialEq)]
struct Cand {
    /// LRU: least recently used first; FIFO: oldest first; LFU: insertion order (irrelevant)
    entries: Vec<E>,
    /// hits whose value has not been delivered yet: (request, serial the hit must carry)
    pending: Vec<(u64, u64)>,
    evictions: u32,
    expiries: u32,
}

fn lookup(c: &Cand, cfg: &Cfg, req: u64, key: u32, now: u64) -> Vec<(Cand, bool)> {
    let mut out = vec![];
    match c.entries.iter().position(|e| e.key == key) {
        None => out.push((c.clone(), false)),
        Some(i) => {
            let age = now - c.entries[i].t_ins;
            let (can_hit, can_expire) = match cfg.ttl_us {
                None => (true, false),
                Some(t) => (age <= t, age >= t),
            };
            if can_expire {
                let mut m = c.clone();
                m.entries.remove(i);
                m.expiries += 1;
                out.push((m, false));
            }
            if can_hit {
                let mut h = c.clone();
                let serial = h.entries[i].serial;
                match cfg.pol {
                    Pol::Lru => {
                        let e = h.entries.remove(i);
                        h.entries.push(e);
                    }
                    Pol::Lfu => h.entries[i].freq += 1,
                    Pol::Fifo => {}
                }
                h.pending.push((req, serial));
                out.push((h, true));
            }
        }
    }
    out
}

fn insert(c: &Cand, cfg: &Cfg, key: u32, serial: u64, now: u64) -> Vec<Cand> {
    let mut out = vec![];
    if let Some(i) = c.entries.iter().position(|e| e.key == key) {
        // update of a present key (only reachable through concurrent misses): position / frequency
        // semantics are not documented, keep every reasonable reading
        let mut base = c.clone();
        base.entries[i].serial = serial;
        base.entries[i].t_ins = now;
        match cfg.pol {
            Pol::Lru | Pol::Fifo => {
                out.push(base.clone());
                let mut m = base.clone();
                let e = m.entries.remove(i);
                m.entries.push(e);
                out.push(m);
            }
            Pol::Lfu => {
                out.push(base.clone());
                let mut a = base.clone();
                a.entries[i].freq += 1;
                out.push(a);
                let mut b = base.clone();
                b.entries[i].freq = 1;
                out.push(b);
            }
        }
        return out;
    }
    let mut bases = vec![];
    if c.entries.len() >= cfg.max_size {
        match cfg.pol {
            Pol::Lru | Pol::Fifo => {
                let mut m = c.clone();
                m.entries.remove(0);
                m.evictions += 1;
                bases.push(m);
            }
            Pol::Lfu => {
                let min = c.entries.iter().map(|e| e.freq).min().unwrap();
                for (i, e) in c.entries.iter().enumerate() {
                    if e.freq == min {
                        let mut m = c.clone();
                        m.entries.remove(i);
                        m.evictions += 1;
                        bases.push(m);
                    }
                }
            }
        }
    } else {
        bases.push(c.clone());
    }
    for mut b in bases {
        b.entries.push(E { key, serial, t_ins: now, freq: 1 });
        out.push(b);
    }
    out
}

pub fn judge(cfg: &Cfg, log: &[Rec]) -> Report {
    let mut rep = Report::default();
    let pol = format!("{:?}", cfg.pol).to_lowercase();
    let n_stores = if cfg.shared { 1 } else { cfg.n_svcs };
    let mut stores: Vec<Vec<Cand>> = (0..n_stores).map(|_| vec![Cand { entries: vec![], pending: vec![], evictions: 0, expiries: 0 }]).collect();
    let store_of = |req: u64| -> usize {
        if cfg.shared { 0 } else { cfg.reqs[(req - 1) as usize].svc }
    };
    let key_of = |req: u64| cfg.reqs[(req - 1) as usize].key;
    let mut enters: HashMap<u64, Vec<(u64, u32, u64)>> = HashMap::new(); // req -> (serial, key, payload)
    let mut was_hit: HashMap<u64, bool> = HashMap::new();
    let mut hits_after_change = 0u64;
    let mut hits = 0u64;
    let mut max_cands = 1usize;

    'outer: for r in log {
        match &r.ev {
            Ev::InnerEnter { req, serial, key, payload, .. } => {
                enters.entry(*req).or_default().push((*serial, *key, *payload));
            }
            Ev::Issued { req } => {
                let hit = !enters.contains_key(req);
                was_hit.insert(*req, hit);
                let s = store_of(*req);
                let mut next = vec![];
                let mut expected = vec![];
                for c in &stores[s] {
                    for (n, h) in lookup(c, cfg, *req, key_of(*req), r.t) {
                        expected.push(h);
                        if h == hit && !next.contains(&n) {
                            next.push(n);
                        }
                    }
                }
                if next.is_empty() {
                    let what = if hit { "hit-where-model-says-absent" } else { "miss-where-model-says-present" };
                    let held: Vec<String> = stores[s].iter().take(3).map(|c| format!("{:?}", c.entries.iter().map(|e| (e.key, e.serial, e.t_ins)).collect::<Vec<_>>())).collect();
                    rep.violate(
                        format!("C10:{pol}:{what}"),
                        format!(
                            "r{req} (key {}) at t={}us was a {} but every reference candidate expects a {}; policy {:?} max_size {} ttl {:?} shared {}; candidate contents (key, serial, inserted_at): {}",
                            key_of(*req), r.t, if hit { "hit (no inner call)" } else { "miss (inner call)" }, if hit { "miss" } else { "hit" }, cfg.pol, cfg.max_size, cfg.ttl_us, cfg.shared, held.join(" | ")
                        ),
                    );
                    break 'outer;
                }
                if hit {
                    hits += 1;
                    if next.iter().all(|c| c.evictions + c.expiries > 0) {
                        hits_after_change += 1;
                    }
                }
                stores[s] = next;
                max_cands = max_cands.max(stores[s].len());
            }
            Ev::Resolve { req, out } => {
                let s = store_of(*req);
                let hit = was_hit.get(req).copied().unwrap_or(false);
                if hit {
                    let serial = match out {
                        Outcome::Ok { serial, .. } => Some(*serial),
                        _ => None,
                    };
                    let mut next = vec![];
                    let mut expect = vec![];
                    for c in &stores[s] {
                        if let Some(p) = c.pending.iter().position(|p| p.0 == *req) {
                            expect.push(c.pending[p].1);
                            if Some(c.pending[p].1) == serial {
                                let mut n = c.clone();
                                n.pending.remove(p);
                                if !next.contains(&n) {
                                    next.push(n);
                                }
                            }
                        }
                    }
                    if next.is_empty() {
                        expect.sort();
                        expect.dedup();
                        rep.violate(
                            format!("C10:{pol}:hit-wrong-value"),
                            format!("r{req} (key {}) was a hit and returned {}, the reference cache holds serial(s) {:?} for that key", key_of(*req), out.short(), expect),
                        );
                        break 'outer;
                    }
                    stores[s] = next;
                } else {
                    let n_enter = enters.get(req).map(|v| v.len()).unwrap_or(0);
                    if n_enter != 1 {
                        rep.violate(format!("C10:{pol}:miss-inner-calls"), format!("r{req} was a miss and caused {n_enter} inner calls"));
                    }
                    if let Outcome::Ok { serial, req_id, .. } = out {
                        let own = enters.get(req).map(|v| v[0].0);
                        if own != Some(*serial) || *req_id != *req {
                            rep.violate(format!("C10:{pol}:miss-wrong-value"), format!("r{req} was a miss but returned {} instead of its own inner response", out.short()));
                        }
                        let mut next: Vec<Cand> = vec![];
                        for c in &stores[s] {
                            for n in insert(c, cfg, key_of(*req), *serial, r.t) {
                                if !next.contains(&n) {
                                    next.push(n);
                                }
                            }
                        }
                        stores[s] = next;
                        max_cands = max_cands.max(stores[s].len());
                    }
                }
                if stores[s].len() > 20_000 {
                    rep.inconclusive = Some("candidate explosion".into());
                    break 'outer;
                }
            }
            Ev::ActorPanic { req, msg } => {
                rep.violate(format!("C10:{pol}:library-panic"), format!("r{req}: {msg}"));
            }
            _ => {}
        }
    }
    rep.count("hits", hits);
    rep.count("hits_after_eviction_or_expiry", hits_after_change);
    rep.max("max_model_candidates", max_cands as u64);
    rep.bucket(format!("{:?} size={} ttl={:?} shared={} svcs={}", cfg.pol, cfg.max_size, cfg.ttl_us, cfg.shared, cfg.n_svcs));
    rep.nontrivial = hits_after_change >= 1;
    rep
}

/// "Unbounded" spelled as a huge max_size: the cache must be constructible and behave like a cache.
fn extreme_size(sseed: u64) -> Report {
    let mut rng = Prng::new(sseed);
    let max_size = *rng.pick(&[usize::MAX, usize::MAX / 2, usize::MAX - 1]);
    let pol = *rng.pick(&[Pol::Lru, Pol::Lfu, Pol::Fifo]);
    let shared = rng.chance(0.5);
    let mut rep = Report::default();
    let r = std::panic::catch_unwind(|| {
        run_sim(sseed, |sim| {
            let w = sim.w.clone();
            let policy = match pol {
                Pol::Lru => EvictionPolicy::Lru,
                Pol::Lfu => EvictionPolicy::Lfu,
                Pol::Fifo => EvictionPolicy::Fifo,
            };
            // keys 1, 1, 2, 1 one after the other: miss, hit, miss, hit
            macro_rules! go {
                ($layer:expr) => {{
                    let svc = $layer.layer(w.probe(1));
                    for (i, key) in [1u32, 1, 2, 1].iter().enumerate() {
                        let req = Req::new(i as u64 + 1, *key, vec![Step { lat: Lat::Us(0), out: Out::Ok }]);
                        let a = sim.actor(req.id, crate::actors::caller_linger(w.clone(), svc.clone(), req, false, crate::actors::Linger::No, map_err));
                        sim.start_at(i as u64 * 1000, a);
                    }
                }};
            }
            if shared {
                let layer = SharedCacheLayer::<Req, u32, Resp>::builder().max_size(max_size).eviction_policy(policy).key_extractor(|r: &Req| r.key).build();
                go!(layer);
            } else {
                let layer = CacheLayer::<Req, u32>::builder().max_size(max_size).eviction_policy(policy).key_extractor(|r: &Req| r.key).build();
                go!(layer);
            }
            sim.horizon = 1_000_000;
        })
    });
    match r {
        Err(_) => rep.violate(
            format!("C10:{}:panic-at-extreme-config", pol_name(pol)),
            format!("cache with max_size={max_size} (shared={shared}): {}", crate::sim::take_last_panic().unwrap_or_default()),
        ),
        Ok((w, _, ())) => {
            let log = w.take_log();
            let inner: Vec<u64> = log.iter().filter_map(|r| if let Ev::InnerEnter { req, .. } = &r.ev { Some(*req) } else { None }).collect();
            if inner != vec![1, 3] {
                rep.violate(format!("C10:{}:extreme-size-wrong-hits", pol_name(pol)), format!("cache with max_size={max_size}: requests for keys 1,1,2,1 caused inner calls for requests {inner:?}, expected [1, 3]"));
            }
            rep.log = log;
        }
    }
    rep.nontrivial = true;
    rep.sig = crate::prng::mix(max_size as u64, shared as u64 * 8 + pol as u64);
    rep.count("extreme_size_scenarios", 1);
    rep.case = json!({"max_size": max_size.to_string(), "policy": pol_name(pol), "shared": shared});
    rep
}

fn pol_name(p: Pol) -> &'static str {
    match p {
        Pol::Lru => "lru",
        Pol::Lfu => "lfu",
        Pol::Fifo => "fifo",
    }
}

pub fn scenario(sseed: u64, _tier: Tier) -> Report {
    if sseed % 61 == 0 {
        return extreme_size(sseed);
    }
    let mut rng = Prng::new(sseed);
    let cfg = gen(&mut rng);
    let (w, stats) = run(&cfg, rng.next());
    let log = w.take_log();
    let mut rep = judge(&cfg, &log);
    let mut sig = Fnv::default();
    for r in &log {
        match &r.ev {
            Ev::InnerEnter { req, .. } => sig.add(*req),
            Ev::Resolve { req, out } => {
                sig.add(*req);
                sig.add_str(&out.short());
            }
            _ => {}
        }
    }
    sig.add_str(&format!("{:?}{}{:?}{}", cfg.pol, cfg.max_size, cfg.ttl_us, cfg.shared));
    rep.sig = sig.0;
    rep.count("polls", stats.polls);
    rep.count("events", log.len() as u64);
    if stats.hit_poll_cap || stats.hit_horizon {
        rep.inconclusive = Some(format!("poll_cap={} horizon={}", stats.hit_poll_cap, stats.hit_horizon));
    }
    rep.case = json!({"cfg": format!("{:?}", Cfg { reqs: vec![], ..cfg.clone() }), "requests": cfg.reqs.iter().map(|r| format!("t={} k{} lat={} {} s{}", r.arrive_us, r.key, r.lat_us, if r.fail {"err"} else {"ok"}, r.svc)).collect::<Vec<_>>()});
    rep.log = log;
    let _ = cfg.probe_from;
    let _ = cfg.n_keys;
    rep
}

// ---------------------------------------------------------------------------------------
// E-STRESS: real threads on one (shared or private) store. Only time-independent facts are
// judged: a response belongs to the request's key, a response that is not the caller's own
// inner result was produced by an earlier *successful* inner call of that key, a miss calls the
// inner service exactly once, errors come from the caller's own inner call.
// ---------------------------------------------------------------------------------------

pub fn stress(sseed: u64, calls: u64) -> Report {
    use tower::Service;
    let mut rng = Prng::new(sseed);
    let workers = *rng.pick(&[4usize, 8, 16]);
    let pol = *rng.pick(&[Pol::Lru, Pol::Lfu, Pol::Fifo]);
    let max_size = rng.range(1, 3) as usize;
    let n_keys = 4u32;
    let mut rep = Report::default();
    let rt = tokio::runtime::Builder::new_multi_thread().worker_threads(workers).enable_time().build().unwrap();
    let w = World::new();
    let layer = SharedCacheLayer::<Req, u32, Resp>::builder()
        .max_size(max_size)
        .eviction_policy(match pol {
            Pol::Lru => EvictionPolicy::Lru,
            Pol::Lfu => EvictionPolicy::Lfu,
            Pol::Fifo => EvictionPolicy::Fifo,
        })
        .ttl(Duration::from_millis(2))
        .key_extractor(|r: &Req| r.key)
        .build();
    let svc = layer.layer(w.probe(1));
    let tasks = 32u64;
    let per = calls / tasks;
    let results = rt.block_on(async {
        tokio::time::timeout(Duration::from_secs(120), async {
            let mut hs = vec![];
            for t in 0..tasks {
                let svc = svc.clone();
                let mut r = Prng::new(sseed ^ (t + 1) * 0x2545F);
                hs.push(tokio::spawn(async move {
                    let mut out = vec![];
                    for i in 0..per {
                        let mut s = svc.clone();
                        let key = r.below(n_keys as u64) as u32;
                        let id = t * 10_000_000 + i + 1;
                        let lat = if r.chance(0.5) { Lat::Us(0) } else { Lat::Us(r.range(1, 200)) };
                        let o = if r.chance(0.8) { Out::Ok } else { Out::Err(1) };
                        let req = Req::new(id, key, vec![Step { lat, out: o }]);
                        if std::future::poll_fn(|cx| s.poll_ready(cx)).await.is_err() {
                            continue;
                        }
                        let res = s.call(req).await;
                        out.push((id, key, match &res { Ok(x) => Outcome::ok(x), Err(e) => map_err(e) }));
                        if r.chance(0.02) {
                            tokio::time::sleep(Duration::from_micros(r.range(500, 3000))).await;
                        }
                    }
                    out
                }));
            }
            let mut all = vec![];
            for h in hs {
                if let Ok(v) = h.await {
                    all.extend(v);
                }
            }
            all
        })
        .await
    });
    rt.shutdown_background();
    let results = match results {
        Ok(r) => r,
        Err(_) => {
            rep.inconclusive = Some("stress run did not finish within 120s".into());
            return rep;
        }
    };
    let log = w.take_log();
    // serial -> (key, request, ended ok?)
    let mut by_serial: HashMap<u64, (u32, u64, bool)> = HashMap::new();
    let mut calls_of: HashMap<u64, u32> = HashMap::new();
    for r in &log {
        match &r.ev {
            Ev::InnerEnter { serial, key, req, .. } => {
                by_serial.insert(*serial, (*key, *req, false));
                *calls_of.entry(*req).or_insert(0) += 1;
            }
            Ev::InnerExit { serial, how, .. } => {
                if let Some(e) = by_serial.get_mut(serial) {
                    e.2 = matches!(how, crate::world::How::Ok);
                }
            }
            _ => {}
        }
    }
    let mut hits = 0u64;
    for (id, key, out) in &results {
        let n = calls_of.get(id).copied().unwrap_or(0);
        match out {
            Outcome::Ok { serial, .. } => {
                let (k, owner, ok) = match by_serial.get(serial) {
                    Some(x) => *x,
                    None => {
                        rep.violate("C10:stress:value-from-nowhere", format!("r{id}: response #{serial} was never produced by the inner service"));
                        continue;
                    }
                };
                if k != *key {
                    rep.violate("C10:stress:value-of-another-key", format!("r{id} (key {key}) received response #{serial} which was produced for key {k}"));
                }
                if !ok {
                    rep.violate("C10:stress:failed-call-served", format!("r{id}: response #{serial} belongs to an inner call that did not succeed"));
                }
                if owner == *id {
                    if n != 1 {
                        rep.violate("C10:stress:miss-inner-calls", format!("r{id}: miss with {n} inner calls"));
                    }
                } else {
                    hits += 1;
                    if n != 0 {
                        rep.violate("C10:stress:hit-called-inner", format!("r{id}: served #{serial} of r{owner} from the cache but also called the inner service {n} times"));
                    }
                }
            }
            Outcome::Inner { serial, .. } => {
                if by_serial.get(serial).map(|x| x.1) != Some(*id) {
                    rep.violate("C10:stress:foreign-error", format!("r{id}: received error #{serial} of another request: errors must never be cached"));
                }
            }
            other => rep.violate("C10:stress:unexpected-outcome", format!("r{id}: {}", other.short())),
        }
        if rep.violations.len() > 10 {
            break;
        }
    }
    rep.count("stress_requests", results.len() as u64);
    rep.count("stress_hits", hits);
    rep.count("stress_inner_calls", by_serial.len() as u64);
    rep.nontrivial = hits > 0;
    rep.sig = crate::prng::mix(sseed, hits);
    rep.case = json!({"engine":"stress","workers":workers,"policy":format!("{pol:?}"),"max_size":max_size,"requests":results.len(),"hits":hits,"inner_calls":by_serial.len()});
    rep
}
