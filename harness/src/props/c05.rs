//! C05: retry – bounded attempts, stops at first success / refused error, returns the last
//! outcome, waits the backoff, consults the budget.

use crate::actors::caller;
use crate::prng::{Fnv, Prng};
use crate::report::{Report, Tier};
use crate::sim::run_sim;
use crate::world::{Ev, How, Lat, Out, Outcome, PErr, Rec, Req, Step, World};
use serde_json::json;
use std::collections::HashMap;
use std::sync::Arc;
use std::time::Duration;
use tower::Layer;
use tower_resilience_retry::{ExponentialBackoff, ExponentialRandomBackoff, FixedInterval, FnInterval, IntervalFunction, RetryBudget, RetryBudgetBuilder, RetryLayer};

#[derive(Clone, Debug)]
enum Backoff {
    Fixed(u64),
    Exp(u64),
    ExpCapped(u64, f64, u64),
    Jitter(u64, f64),
    Custom,
}

#[derive(Clone, Debug)]
enum BudgetK {
    None,
    Token { max: usize, initial: usize },
    Aimd { min: usize, max: usize, dep: usize, wd: usize },
}

#[derive(Clone, Debug)]
struct ReqSpec {
    arrive_us: u64,
    /// (latency us, outcome: 0 ok, 1 retryable error, 2 other error)
    script: Vec<(u64, u8)>,
    own_max: usize,
}

#[derive(Clone, Debug)]
pub struct Cfg {
    preset: &'static str,
    max_attempts: usize,
    per_request: bool,
    backoff: Backoff,
    predicate: bool,
    budget: BudgetK,
    reqs: Vec<ReqSpec>,
}

pub fn gen(rng: &mut Prng) -> Cfg {
    let roll = rng.below(100);
    let preset = if roll < 4 {
        "exponential_backoff"
    } else if roll < 8 {
        "aggressive"
    } else if roll < 12 {
        "conservative"
    } else if roll < 15 {
        "default"
    } else {
        "builder"
    };
    let max_attempts = match preset {
        "exponential_backoff" | "default" => 3,
        "aggressive" => 5,
        "conservative" => 2,
        _ => rng.below(6) as usize,
    };
    let per_request = preset == "builder" && rng.chance(0.25);
    let backoff = match preset {
        "exponential_backoff" | "default" => Backoff::Exp(100_000),
        "aggressive" => Backoff::Exp(50_000),
        "conservative" => Backoff::Exp(500_000),
        _ => match rng.below(6) {
            0 => Backoff::Fixed(*rng.pick(&[0u64, 1000, 10_000, 900, 250])),
            1 => Backoff::Exp(*rng.pick(&[1000u64, 5000, 300])),
            2 => Backoff::ExpCapped(2000, *rng.pick(&[1.5, 2.0, 3.0]), *rng.pick(&[3000u64, 10_000])),
            3 => Backoff::Jitter(4000, *rng.pick(&[0.0, 0.5, 1.0])),
            4 => Backoff::Custom,
            _ => Backoff::Fixed(5000),
        },
    };
    let budget = match rng.below(10) {
        0..=4 => BudgetK::None,
        5..=7 => {
            let max = rng.range(1, 4) as usize;
            BudgetK::Token { max, initial: rng.range(0, 3).min(max as u64) as usize }
        }
        _ => BudgetK::Aimd { min: rng.range(0, 1) as usize, max: rng.range(1, 4) as usize, dep: 1, wd: rng.range(1, 2) as usize },
    };
    let n = if matches!(budget, BudgetK::None) { rng.range(1, 3) } else { rng.range(1, 5) };
    let fail_bias = *rng.pick(&[0.5, 0.8, 0.95]);
    let mut reqs = vec![];
    for _ in 0..n {
        let len = rng.range(1, 6);
        let mut script = vec![];
        for _ in 0..len {
            let o = if rng.chance(fail_bias) {
                if rng.chance(0.8) { 1 } else { 2 }
            } else {
                0
            };
            script.push((*rng.pick(&[0u64, 0, 1000, 3000, 10_000]), o));
        }
        reqs.push(ReqSpec { arrive_us: rng.below(4) * 2000, script, own_max: rng.below(6) as usize });
    }
    Cfg { preset, max_attempts, per_request, backoff, predicate: rng.chance(0.5), budget, reqs }
}

struct LogInterval {
    inner: Arc<dyn IntervalFunction>,
    w: Arc<World>,
}
impl IntervalFunction for LogInterval {
    fn next_interval(&self, attempt: usize) -> Duration {
        let d = self.inner.next_interval(attempt);
        self.w.log(Ev::Listener { name: "backoff".into(), a: attempt as u64, b: d.as_micros() as u64 });
        d
    }
}

struct LogBudget {
    inner: Arc<dyn RetryBudget>,
    w: Arc<World>,
}
impl RetryBudget for LogBudget {
    fn try_withdraw(&self) -> bool {
        let r = self.inner.try_withdraw();
        self.w.log(Ev::Listener { name: "budget-withdraw".into(), a: r as u64, b: self.inner.balance() as u64 });
        r
    }
    fn deposit(&self) {
        self.inner.deposit();
        self.w.log(Ev::Listener { name: "budget-deposit".into(), a: 0, b: self.inner.balance() as u64 });
    }
    fn balance(&self) -> usize {
        self.inner.balance()
    }
}

fn interval_fn(b: &Backoff) -> Arc<dyn IntervalFunction> {
    match b {
        Backoff::Fixed(us) => Arc::new(FixedInterval::new(Duration::from_micros(*us))),
        Backoff::Exp(us) => Arc::new(ExponentialBackoff::new(Duration::from_micros(*us))),
        Backoff::ExpCapped(us, m, cap) => Arc::new(ExponentialBackoff::new(Duration::from_micros(*us)).multiplier(*m).max_interval(Duration::from_micros(*cap))),
        Backoff::Jitter(us, f) => Arc::new(ExponentialRandomBackoff::new(Duration::from_micros(*us), *f).max_interval(Duration::from_micros(20_000))),
        Backoff::Custom => Arc::new(FnInterval::new(|a: usize| Duration::from_micros([7000u64, 0, 3000, 1000, 9000, 400][a % 6]))),
    }
}

fn req_of(i: usize, r: &ReqSpec) -> Req {
    let script: Vec<Step> = r
        .script
        .iter()
        .map(|(lat, o)| Step { lat: Lat::Us(*lat), out: match o { 0 => Out::Ok, 1 => Out::Err(1), _ => Out::Err(2) } })
        .collect();
    let mut q = Req::new(i as u64 + 1, 0, script);
    q.payload = (q.payload & !0xff) | r.own_max as u64;
    q
}

pub fn run(cfg: &Cfg, seed: u64) -> (Arc<World>, crate::sim::SimStats) {
    let (w, stats, ()) = run_sim(seed, |sim| {
        let w = sim.w.clone();
        let mut b = match cfg.preset {
            "exponential_backoff" => RetryLayer::<Req, PErr>::exponential_backoff(),
            "aggressive" => RetryLayer::<Req, PErr>::aggressive(),
            "conservative" => RetryLayer::<Req, PErr>::conservative(),
            _ => RetryLayer::<Req, PErr>::builder(),
        };
        if cfg.preset == "builder" {
            b = b.backoff(LogInterval { inner: interval_fn(&cfg.backoff), w: w.clone() });
            if cfg.per_request {
                b = b.max_attempts_fn(|r: &Req| (r.payload & 0xff) as usize);
            } else {
                b = b.max_attempts(cfg.max_attempts);
            }
        }
        if cfg.predicate {
            b = b.retry_on(|e: &PErr| e.class == 1);
        }
        match &cfg.budget {
            BudgetK::None => {}
            BudgetK::Token { max, initial } => {
                let inner = RetryBudgetBuilder::new().token_bucket().max_tokens(*max).initial_tokens(*initial).build();
                b = b.budget(Arc::new(LogBudget { inner, w: w.clone() }));
            }
            BudgetK::Aimd { min, max, dep, wd } => {
                let inner = RetryBudgetBuilder::new().aimd().min_budget(*min).max_budget(*max).deposit_amount(*dep).withdraw_amount(*wd).build();
                b = b.budget(Arc::new(LogBudget { inner, w: w.clone() }));
            }
        }
        let layer = b.build();
        let svc = layer.layer(w.probe(1));
        for (i, r) in cfg.reqs.iter().enumerate() {
            let req = req_of(i, r);
            let a = sim.actor(req.id, caller(w.clone(), svc.clone(), req, false, |e: &PErr| Outcome::inner(e)));
            sim.start_at(r.arrive_us, a);
        }
        sim.horizon = 600_000_000;
    });
    (w, stats)
}

pub fn scenario(sseed: u64, _tier: Tier) -> Report {
    let mut rng = Prng::new(sseed);
    let cfg = gen(&mut rng);
    let (w, stats) = run(&cfg, rng.next());
    let log = w.take_log();
    let mut rep = judge(&cfg, &log);
    let mut sig = Fnv::default();
    sig.add(stats.trace_sig);
    for r in &log {
        match &r.ev {
            Ev::InnerEnter { req, attempt, .. } => {
                sig.add(*req * 16 + *attempt as u64);
                sig.add(r.t);
            }
            Ev::Resolve { req, out } => {
                sig.add(*req);
                sig.add_str(&out.short());
            }
            _ => {}
        }
    }
    sig.add_str(&format!("{:?}{:?}{}", cfg.backoff, cfg.budget, cfg.max_attempts));
    rep.sig = sig.0;
    rep.count("polls", stats.polls);
    rep.count("events", log.len() as u64);
    if stats.hit_poll_cap || stats.hit_horizon {
        rep.inconclusive = Some(format!("poll_cap={} horizon={}", stats.hit_poll_cap, stats.hit_horizon));
    }
    rep.case = json!({"cfg": format!("{cfg:?}")});
    rep.log = log;
    rep
}

pub fn judge(cfg: &Cfg, log: &[Rec]) -> Report {
    let mut rep = Report::default();
    let reference = interval_fn(&cfg.backoff);
    let mut retries_total = 0u64;
    let mut denials = 0u64;
    let mut competing = false;
    let has_budget = !matches!(cfg.budget, BudgetK::None);
    // per request: list of attempts (enter t, exit t, how, serial)
    struct Att {
        enter: u64,
        exit: Option<(u64, How)>,
        serial: u64,
    }
    let mut atts: HashMap<u64, Vec<Att>> = HashMap::new();
    // listener events attributed to the request whose inner call failed last (same poll)
    let mut last_failed: Option<u64> = None;
    let mut grants: HashMap<u64, Vec<(u32, bool, Option<u64>)>> = HashMap::new(); // req -> per failed attempt: (attempt, granted?, delay)
    let mut resolved: HashMap<u64, (u64, Outcome)> = HashMap::new();
    let mut active = 0i64;
    for r in log {
        match &r.ev {
            Ev::FirstPoll { .. } => {
                active += 1;
                if active >= 2 {
                    competing = true;
                }
            }
            Ev::InnerEnter { req, serial, .. } => {
                atts.entry(*req).or_default().push(Att { enter: r.t, exit: None, serial: *serial });
                last_failed = None;
            }
            Ev::InnerExit { req, how, attempt, .. } => {
                if let Some(a) = atts.get_mut(req).and_then(|v| v.last_mut()) {
                    a.exit = Some((r.t, how.clone()));
                }
                last_failed = if matches!(how, How::Err(_)) { Some(*req) } else { None };
                if let Some(q) = last_failed {
                    grants.entry(q).or_default().push((*attempt, !has_budget, None));
                }
            }
            Ev::Listener { name, a, b } => match (name.as_str(), last_failed) {
                ("budget-withdraw", Some(q)) => {
                    if let Some(g) = grants.get_mut(&q).and_then(|v| v.last_mut()) {
                        g.1 = *a == 1;
                    }
                    if *a == 0 {
                        denials += 1;
                    }
                }
                ("backoff", Some(q)) => {
                    if let Some(g) = grants.get_mut(&q).and_then(|v| v.last_mut()) {
                        g.2 = Some(*b);
                        let _ = a;
                    }
                }
                _ => {}
            },
            Ev::Resolve { req, out } => {
                resolved.insert(*req, (r.t, out.clone()));
                active -= 1;
                last_failed = None;
            }
            Ev::ActorPanic { req, msg } => {
                rep.violate("C05:library-panic", format!("r{req}: {msg}"));
            }
            _ => {}
        }
    }
    for (i, spec) in cfg.reqs.iter().enumerate() {
        let id = i as u64 + 1;
        let v = match atts.get(&id) {
            Some(v) => v,
            None => {
                if resolved.contains_key(&id) {
                    rep.violate("C05:no-attempt", format!("r{id} was answered without any inner call"));
                }
                continue;
            }
        };
        let maxa = if cfg.per_request { spec.own_max } else { cfg.max_attempts };
        let bound = maxa.max(1);
        if v.len() > bound {
            rep.violate("C05:too-many-attempts", format!("r{id}: {} inner calls with max_attempts={maxa}", v.len()));
        }
        rep.max("max_attempts_observed", v.len() as u64);
        retries_total += v.len() as u64 - 1;
        for k in 0..v.len() {
            let (exit_t, how) = match &v[k].exit {
                Some(x) => x.clone(),
                None => continue,
            };
            if k + 1 < v.len() {
                // there was a retry after attempt k
                match how {
                    How::Ok => rep.violate("C05:retry-after-success", format!("r{id}: attempt {} followed a successful attempt", k + 1)),
                    How::Err(c) => {
                        if cfg.predicate && c != 1 {
                            rep.violate("C05:retry-after-refused-error", format!("r{id}: attempt {} followed an error (class {c}) the predicate refuses", k + 1));
                        }
                    }
                    _ => {}
                }
                let g = grants.get(&id).and_then(|gs| gs.iter().find(|g| g.0 == k as u32)).cloned();
                let delay = match (&g, cfg.preset) {
                    (Some((_, _, Some(d))), _) => Some(*d),
                    (_, "builder") => None,
                    _ => Some(reference.next_interval(k).as_micros() as u64),
                };
                match delay {
                    Some(d) => {
                        let gap = v[k + 1].enter - exit_t;
                        if gap < d {
                            rep.violate("C05:backoff-too-short", format!("r{id}: retry {} started {gap}us after the failure, backoff for it is {d}us", k + 1));
                        }
                        rep.count("backoff_checks", 1);
                    }
                    None => rep.violate("C05:backoff-not-consulted", format!("r{id}: retry {} happened without asking the backoff policy", k + 1)),
                }
                if has_budget {
                    match g {
                        Some((_, true, _)) => {}
                        Some((_, false, _)) => rep.violate("C05:retry-without-grant", format!("r{id}: retry {} happened although the budget denied it / was not asked", k + 1)),
                        None => rep.violate("C05:retry-without-grant", format!("r{id}: retry {} happened and the budget was never consulted", k + 1)),
                    }
                }
            }
        }
        // final outcome = last attempt's outcome
        if let (Some((_, out)), Some(last)) = (resolved.get(&id), v.last()) {
            let ok = match (out, &last.exit) {
                (Outcome::Ok { serial, req_id, .. }, Some((_, How::Ok))) => *serial == last.serial && *req_id == id,
                (Outcome::Inner { serial, .. }, Some((_, How::Err(_)))) => *serial == last.serial,
                _ => false,
            };
            if !ok {
                rep.violate("C05:not-last-outcome", format!("r{id}: caller saw {} but the last attempt (serial {}) ended {:?}", out.short(), last.serial, last.exit.as_ref().map(|e| &e.1)));
            }
            // must not stop early: if the last outcome is a retryable error and attempts remain, a denial must explain it
            if let Some((_, How::Err(c))) = &last.exit {
                let retryable = !cfg.predicate || *c == 1;
                if retryable && v.len() < bound {
                    let denied = has_budget && grants.get(&id).and_then(|gs| gs.last()).map(|g| !g.1).unwrap_or(false);
                    if !denied {
                        // not refuted by the property as stated ("at most"): recorded, not judged
                        rep.count("stopped_early_observations", 1);
                    }
                }
            }
        }
    }
    rep.count("retries", retries_total);
    rep.count("budget_denials", denials);
    rep.bucket(format!("{} backoff={} budget={} pred={} per_req={}", cfg.preset, format!("{:?}", cfg.backoff).split('(').next().unwrap_or(""), format!("{:?}", cfg.budget).split(' ').next().unwrap_or(""), cfg.predicate, cfg.per_request));
    rep.nontrivial = retries_total >= 1 && (!has_budget || denials >= 1 || competing);
    rep
}
