//! C20: layers are transparent when not triggered, honour the Tower readiness contract towards
//! the wrapped service, and listeners only observe.

use crate::actors::{boxed, do_call};
use crate::prng::{Fnv, Prng};
use crate::report::{Report, Tier};
use crate::sim::run_sim;
use crate::world::{Ev, Lat, Out, Outcome, PErr, ReadyScript, Rec, Req, Resp, Step, World};
use serde_json::json;
use std::collections::HashMap;
use std::sync::atomic::{AtomicU64, Ordering};
use std::sync::Arc;
use std::time::Duration;
use tower::util::BoxCloneService;
use tower::{Layer, Service, ServiceExt};

pub type Svc = BoxCloneService<Req, Resp, Outcome>;

pub const LAYERS: [&str; 13] = ["bulkhead", "ratelimiter", "circuitbreaker", "retry", "timelimiter", "cache", "fallback", "hedge", "reconnect", "adaptive", "coalesce", "executor", "chaos"];

fn boxed_svc<S, M>(s: S, map: M) -> Svc
where
    S: Service<Req, Response = Resp> + Clone + Send + 'static,
    S::Future: Send + 'static,
    S::Error: 'static,
    M: Fn(S::Error) -> Outcome + Clone + Send + 'static,
{
    BoxCloneService::new(s.map_err(map))
}

/// Builds layer `name` in a non-triggering configuration over `inner`.
/// `variant` selects between equivalent non-triggering configurations.
pub fn build<S>(name: &str, inner: S, variant: u64) -> Svc
where
    S: Service<Req, Response = Resp, Error = PErr> + Clone + Send + 'static,
    S::Future: Send + 'static,
{
    use crate::props::*;
    match name {
        "bulkhead" => {
            let l = if variant % 2 == 0 {
                tower_resilience_bulkhead::BulkheadLayer::builder().max_concurrent_calls(8).build()
            } else {
                tower_resilience_bulkhead::BulkheadLayer::small().build()
            };
            boxed_svc(l.layer(inner), |e| match e {
                tower_resilience_bulkhead::BulkheadServiceError::Inner(p) => Outcome::inner(&p),
                other => Outcome::layer(format!("{other:?}")),
            })
        }
        "ratelimiter" => {
            use tower_resilience_ratelimiter::WindowType;
            let wt = match variant % 3 {
                0 => WindowType::Fixed,
                1 => WindowType::SlidingLog,
                _ => WindowType::SlidingCounter,
            };
            let l = tower_resilience_ratelimiter::RateLimiterLayer::builder().limit_for_period(10_000).refresh_period(Duration::from_secs(1)).timeout_duration(Duration::from_millis(10)).window_type(wt).build();
            boxed_svc(l.layer(inner), |e| match e {
                tower_resilience_ratelimiter::RateLimiterServiceError::Inner(p) => Outcome::inner(&p),
                _ => Outcome::layer("RateLimited"),
            })
        }
        "circuitbreaker" => {
            let l = tower_resilience_circuitbreaker::CircuitBreakerLayer::builder().failure_rate_threshold(1.0).sliding_window_size(1000).build();
            if variant % 2 == 0 {
                boxed_svc(l.layer(inner), |e| c04::map_err(&e))
            } else {
                // the variant with a fallback: never invoked while the breaker stays closed
                let svc = l.layer(inner).with_fallback(|req: Req| -> futures::future::BoxFuture<'static, Result<Resp, PErr>> {
                    Box::pin(async move { Ok(Resp { serial: 0, req_id: req.id, payload: req.payload, src: 98 }) })
                });
                boxed_svc(svc, |e| c04::map_err(&e))
            }
        }
        "retry" => {
            // errors of class 2 are refused by the predicate, or only one attempt is allowed (fixed / per request)
            let l = match variant % 3 {
                0 => tower_resilience_retry::RetryLayer::<Req, PErr>::builder().max_attempts(3).fixed_backoff(Duration::from_millis(1)).retry_on(|e: &PErr| e.class == 1).build(),
                1 => tower_resilience_retry::RetryLayer::<Req, PErr>::builder().max_attempts(1).build(),
                _ => tower_resilience_retry::RetryLayer::<Req, PErr>::builder().max_attempts_fn(|_r: &Req| 1).build(),
            };
            boxed_svc(l.layer(inner), |e: PErr| Outcome::inner(&e))
        }
        "timelimiter" => {
            let map = |e| match e {
                tower_resilience_timelimiter::TimeLimiterError::Inner(p) => Outcome::inner(&p),
                _ => Outcome::layer("Timeout"),
            };
            if variant % 3 == 2 {
                let l = tower_resilience_timelimiter::TimeLimiterLayer::builder().timeout_fn(|_r: &Req| Duration::from_secs(30)).cancel_running_future(variant % 2 == 0).build();
                boxed_svc(l.layer(inner), map)
            } else {
                let l = tower_resilience_timelimiter::TimeLimiterLayer::builder().timeout_duration(Duration::from_secs(30)).cancel_running_future(variant % 2 == 0).build();
                boxed_svc(l.layer(inner), map)
            }
        }
        "cache" => {
            if variant % 2 == 0 {
                let l = tower_resilience_cache::CacheLayer::<Req, u64>::builder().max_size(4).key_extractor(|r: &Req| r.id).build();
                boxed_svc(l.layer(inner), |e| match e {
                    tower_resilience_cache::CacheError::Inner(p) => Outcome::inner(&p),
                })
            } else {
                let l = tower_resilience_cache::SharedCacheLayer::<Req, u64, Resp>::builder().max_size(4).key_extractor(|r: &Req| r.id).build();
                boxed_svc(l.layer(inner), |e| match e {
                    tower_resilience_cache::CacheError::Inner(p) => Outcome::inner(&p),
                })
            }
        }
        "fallback" => {
            let l = tower_resilience_fallback::FallbackLayer::<Req, Resp, PErr>::builder().value(Resp { serial: 0, req_id: 0, payload: 0, src: 99 }).handle(|e: &PErr| e.class == 1).build();
            boxed_svc(l.layer(inner), |e| match e {
                tower_resilience_fallback::FallbackError::Inner(p) => Outcome::inner(&p),
                tower_resilience_fallback::FallbackError::FallbackFailed(p) => Outcome::layer_with("FallbackFailed", &p),
            })
        }
        "hedge" => {
            // one attempt: the only error exit is AllAttemptsFailed(e) with e unchanged
            let l = tower_resilience_hedge::HedgeLayer::builder().max_hedged_attempts(1).build();
            boxed_svc(l.layer(inner), |e| match e {
                tower_resilience_hedge::HedgeError::Inner(p) => Outcome::inner(&p),
                tower_resilience_hedge::HedgeError::AllAttemptsFailed(p) => Outcome::inner(&p),
            })
        }
        "reconnect" => {
            let cfg = tower_resilience_reconnect::ReconnectConfig::builder()
                .policy(tower_resilience_reconnect::ReconnectPolicy::fixed(Duration::from_millis(1)))
                .max_attempts(2)
                .reconnect_predicate(|e: &dyn std::error::Error| e.to_string().contains("class=1"))
                .build();
            let l = tower_resilience_reconnect::ReconnectLayer::new(cfg);
            let svc = l.layer(inner);
            BoxCloneService::new(svc.map_err(|e| {
                let s = format!("{e:?}");
                // the error enum is not re-exported; its pass-through variant prints as ServiceError(PErr{..})
                if let Some(rest) = s.strip_prefix("ServiceError(") {
                    parse_perr(rest).map(|p| Outcome::inner(&p)).unwrap_or(Outcome::layer(s.clone()))
                } else {
                    Outcome::layer(s)
                }
            }))
        }
        "adaptive" => {
            let alg = tower_resilience_adaptive::Aimd::builder().initial_limit(50).min_limit(10).max_limit(100).latency_threshold(Duration::from_secs(10)).build();
            let l = tower_resilience_adaptive::AdaptiveLimiterLayer::new(alg);
            boxed_svc(l.layer(inner), |e| match e {
                tower_resilience_adaptive::AdaptiveError::Service(p) => Outcome::inner(&p),
                _ => Outcome::layer("LimitReached"),
            })
        }
        "coalesce" => {
            let l = tower_resilience_coalesce::CoalesceLayer::new(|r: &Req| r.id);
            boxed_svc(l.layer(inner), |e| c11::map_err(&e))
        }
        "executor" => {
            let l = tower_resilience_executor::ExecutorLayer::current();
            boxed_svc(l.layer(inner), |e| match e {
                tower_resilience_executor::ExecutorError::Service(p) => Outcome::inner(&p),
                _ => Outcome::layer("TaskCancelled"),
            })
        }
        "chaos" => {
            let l = tower_resilience_chaos::ChaosLayer::builder().error_rate(0.0).error_fn(|r: &Req| PErr { serial: 0, req_id: r.id, class: 77 }).latency_rate(0.0).seed(variant).build();
            boxed_svc(l.layer(inner), |e: PErr| Outcome::inner(&e))
        }
        _ => panic!("unknown layer {name}"),
    }
}

fn futures_noop() -> std::task::Waker {
    struct N;
    impl std::task::Wake for N {
        fn wake(self: Arc<Self>) {}
    }
    std::task::Waker::from(Arc::new(N))
}

fn parse_perr(s: &str) -> Option<PErr> {
    // "PErr { serial: 3, req_id: 1, class: 2 })"
    let num = |key: &str| -> Option<u64> {
        let i = s.find(key)? + key.len();
        let t: String = s[i..].chars().skip_while(|c| !c.is_ascii_digit()).take_while(|c| c.is_ascii_digit()).collect();
        t.parse().ok()
    };
    Some(PErr { serial: num("serial:")?, req_id: num("req_id:")?, class: num("class:")? as u8 })
}

/// Adapter: any service with Error = Outcome back to Error = PErr so that stacks can be built from
/// the boxed layers (a pass-through error keeps its payload, a layer's own error becomes class 200).
#[derive(Clone)]
pub struct AsInner(pub Svc);
impl Service<Req> for AsInner {
    type Response = Resp;
    type Error = PErr;
    type Future = std::pin::Pin<Box<dyn std::future::Future<Output = Result<Resp, PErr>> + Send>>;
    fn poll_ready(&mut self, cx: &mut std::task::Context<'_>) -> std::task::Poll<Result<(), PErr>> {
        self.0.poll_ready(cx).map_err(out_to_perr)
    }
    fn call(&mut self, req: Req) -> Self::Future {
        let f = self.0.call(req);
        Box::pin(async move { f.await.map_err(out_to_perr) })
    }
}
fn out_to_perr(o: Outcome) -> PErr {
    match o {
        Outcome::Inner { serial, req_id, class } => PErr { serial, req_id, class },
        _ => PErr { serial: u64::MAX, req_id: u64::MAX, class: 200 },
    }
}

/// The stacks of the composition guide (outermost first), in non-triggering configurations.
pub const STACKS: [(&str, &[&str]); 14] = [
    ("external-api-minimal", &["timelimiter", "retry"]),
    ("external-api-standard", &["timelimiter", "retry", "circuitbreaker", "timelimiter"]),
    ("external-api-full", &["fallback", "timelimiter", "retry", "circuitbreaker", "timelimiter"]),
    ("external-api-hedged", &["timelimiter", "retry", "circuitbreaker", "hedge", "timelimiter"]),
    ("database-standard", &["timelimiter", "retry", "bulkhead"]),
    ("database-circuit-breaker", &["timelimiter", "circuitbreaker", "bulkhead"]),
    ("microservice-standard", &["timelimiter", "retry", "circuitbreaker"]),
    ("microservice-adaptive", &["timelimiter", "adaptive", "retry"]),
    ("latency-critical", &["timelimiter", "hedge"]),
    ("queue-consumer", &["timelimiter", "retry", "circuitbreaker"]),
    ("queue-producer", &["timelimiter", "retry", "bulkhead"]),
    ("cache-standard", &["fallback", "timelimiter", "circuitbreaker"]),
    ("cache-coalescing", &["timelimiter", "coalesce"]),
    ("server-side", &["ratelimiter", "bulkhead", "timelimiter"]),
];

#[derive(Clone, Copy, Debug, PartialEq, Eq)]
pub enum InnerKind {
    Probe,
    ProbePending(u32),
    /// every instance needs this many microseconds of virtual time after its creation to become ready
    ProbeWarm(u64),
    ProbeReadyErr,
    Buffer,
    ConcurrencyLimit,
}

fn map_box_err(e: tower::BoxError) -> PErr {
    match e.downcast::<PErr>() {
        Ok(p) => *p,
        Err(other) => PErr { serial: u64::MAX - 1, req_id: u64::MAX, class: if other.to_string().contains("closed") { 251 } else { 250 } },
    }
}

/// Wraps layer/stack `target` around the chosen kind of inner service.
pub fn assemble(w: &Arc<World>, target: &str, kind: InnerKind, variant: u64) -> Svc {
    let stack: Vec<&str> = match STACKS.iter().find(|s| s.0 == target) {
        Some(s) => s.1.to_vec(),
        None => vec![target],
    };
    // innermost first
    let mut names: Vec<&str> = stack.clone();
    names.reverse();
    let first = names.remove(0);
    let mut svc: Svc = match kind {
        InnerKind::Probe => build(first, w.probe(1), variant),
        InnerKind::ProbePending(k) => build(first, w.probe(1).with_ready(ReadyScript::PendN(k)), variant),
        InnerKind::ProbeWarm(us) => build(first, w.probe(1).with_ready(ReadyScript::WarmUp(us)), variant),
        InnerKind::ProbeReadyErr => build(first, w.probe(1).with_ready(ReadyScript::Fail(5)), variant),
        InnerKind::Buffer => {
            let b = tower::buffer::Buffer::new(w.probe(1), 4);
            let inner = b.map_err(map_box_err as fn(tower::BoxError) -> PErr);
            build(first, inner, variant)
        }
        InnerKind::ConcurrencyLimit => {
            let c = tower::limit::ConcurrencyLimit::new(w.probe(1), 4);
            build(first, c, variant)
        }
    };
    for n in names {
        svc = build(n, AsInner(svc), variant);
    }
    svc
}

// ---------------------------------------------------------------------------------------
// transparency + readiness
// ---------------------------------------------------------------------------------------

#[derive(Clone, Debug)]
pub struct TCfg {
    target: String,
    kind: InnerKind,
    variant: u64,
    /// per request: inner outcome ok?, latency us, payload
    reqs: Vec<(bool, u64, u64)>,
    /// 0: one sequential client on one service value; k >= 2: k concurrent clients, each on its
    /// own clone (taken from a base value that may already have been polled ready); 1: every
    /// request goes through `clone().oneshot(req)`, all at once
    clients: u32,
    /// the base value was driven to readiness before the clones were taken
    base_polled: bool,
    /// non-zero (sequential client only): the one service value lives through more than plain
    /// ready/call/await cycles — see `life_of`
    life: u64,
}

/// What the sequential client does around request `i`: (extra successful `poll_ready` calls before
/// `call`, drop the call future after its first poll, drop the service value before awaiting the
/// last call).
fn life_of(cfg: &TCfg, i: usize) -> (u32, bool, bool) {
    if cfg.life == 0 || cfg.clients != 0 {
        return (0, false, false);
    }
    let h = crate::prng::mix(cfg.life, i as u64);
    let extra = (h % 3) as u32;
    let cancel = cfg.reqs[i].1 > 0 && (h >> 4) % 5 == 0;
    let drop_svc = i + 1 == cfg.reqs.len() && (cfg.life >> 8) % 3 == 0 && !cancel;
    (extra, cancel, drop_svc)
}

pub fn targets() -> Vec<String> {
    LAYERS.iter().map(|s| s.to_string()).chain(STACKS.iter().map(|s| s.0.to_string())).collect()
}

pub fn gen_t(rng: &mut Prng, index: usize) -> TCfg {
    let ts = targets();
    let target = ts[index % ts.len()].clone();
    let kinds = [InnerKind::Probe, InnerKind::Probe, InnerKind::ProbePending(1), InnerKind::ProbePending(3), InnerKind::ProbeReadyErr, InnerKind::Buffer, InnerKind::ConcurrencyLimit, InnerKind::ProbeWarm(2000)];
    let kind = kinds[(index / ts.len()) % kinds.len()];
    let n = rng.range(2, 8);
    let reqs = (0..n).map(|_| (rng.chance(0.6), *rng.pick(&[0u64, 0, 1000, 3000]), rng.next())).collect();
    let clients = *rng.pick(&[0u32, 0, 0, 1, 2, 3]);
    TCfg { target, kind, variant: rng.next(), reqs, clients, base_polled: rng.chance(0.5), life: if rng.chance(0.5) { rng.next() | 1 } else { 0 } }
}

pub fn scenario_t(sseed: u64, _tier: Tier) -> Report {
    let mut rng = Prng::new(sseed);
    let cfg = gen_t(&mut rng, (sseed % 1_000_003) as usize);
    let (w, stats, ()) = run_sim(rng.next(), |sim| {
        let w = sim.w.clone();
        let mut svc = assemble(&w, &cfg.target, cfg.kind, cfg.variant);
        let reqs = cfg.reqs.clone();
        let w2 = w.clone();
        let mk = |i: usize, ok: bool, lat: u64, payload: u64| {
            // error class 2: never engages retry/fallback/reconnect in these configurations
            let mut req = Req::new(i as u64 + 1, 0, vec![Step { lat: Lat::Us(lat), out: if ok { Out::Ok } else { Out::Err(2) } }]);
            req.payload = payload;
            req
        };
        if cfg.clients == 0 {
            // sequential client on one service value: ready -> call -> await, like ServiceExt::oneshot loops
            let cfgl = cfg.clone();
            let a = sim.actor(0, move || {
                boxed(async move {
                    let mut svc = Some(svc);
                    for (i, (ok, lat, payload)) in reqs.iter().enumerate() {
                        let req = mk(i, *ok, *lat, *payload);
                        let id = req.id;
                        w2.log(Ev::Arrive { req: id });
                        let (extra, cancel, drop_svc) = life_of(&cfgl, i);
                        if extra == 0 && !cancel && !drop_svc {
                            do_call(&w2, svc.as_mut().unwrap(), req, false, &|e: &Outcome| e.clone()).await;
                            continue;
                        }
                        let s = svc.as_mut().unwrap();
                        let mut failed = None;
                        for _ in 0..=extra {
                            if let Err(e) = std::future::poll_fn(|cx| s.poll_ready(cx)).await {
                                failed = Some(e);
                                break;
                            }
                        }
                        if let Some(e) = failed {
                            w2.log(Ev::OuterReady { req: id, ok: false });
                            w2.log(Ev::Resolve { req: id, out: e });
                            continue;
                        }
                        w2.log(Ev::OuterReady { req: id, ok: true });
                        let mut fut = Box::pin(s.call(req));
                        w2.log(Ev::Issued { req: id });
                        if drop_svc {
                            w2.note("service value dropped before the call is awaited");
                            svc = None;
                        }
                        w2.log(Ev::FirstPoll { req: id });
                        if cancel {
                            let polled = std::future::poll_fn(|cx| std::task::Poll::Ready(std::future::Future::poll(fut.as_mut(), cx))).await;
                            if let std::task::Poll::Ready(out) = polled {
                                let o = match out {
                                    Ok(r) => Outcome::ok(&r),
                                    Err(e) => e,
                                };
                                w2.log(Ev::Resolve { req: id, out: o });
                            } else {
                                w2.note(format!("r{id} cancelled after its first poll"));
                            }
                            drop(fut);
                            continue;
                        }
                        let out = fut.await;
                        let o = match out {
                            Ok(r) => Outcome::ok(&r),
                            Err(e) => e,
                        };
                        w2.log(Ev::Resolve { req: id, out: o });
                        if svc.is_none() {
                            break;
                        }
                    }
                    w2.note("driver-done");
                })
            });
            sim.start_at(0, a);
        } else {
            // concurrent clients on clones of one base value
            let k = cfg.clients.max(1) as usize;
            let base_polled = cfg.base_polled && !matches!(cfg.kind, InnerKind::ProbeReadyErr);
            let oneshot = cfg.clients == 1;
            let n_actors = if oneshot { reqs.len() } else { k };
            let base = Arc::new(std::sync::Mutex::new(Some(svc)));
            let done = Arc::new(AtomicU64::new(0));
            for c in 0..n_actors {
                let (w2, reqs, base, done) = (w2.clone(), reqs.clone(), base.clone(), done.clone());
                let a = sim.actor(c as u64, move || {
                    boxed(async move {
                        let mut mine = {
                            let mut g = base.lock().unwrap();
                            let b = g.as_mut().expect("base");
                            if base_polled && c == 0 {
                                // legal: poll a value to readiness and then clone it; the clones must
                                // observe readiness themselves
                                let waker = futures_noop();
                                let mut cx = std::task::Context::from_waker(&waker);
                                let _ = b.poll_ready(&mut cx);
                            }
                            b.clone()
                        };
                        for (i, (ok, lat, payload)) in reqs.iter().enumerate() {
                            let takes = if oneshot { i == c } else { i % n_actors == c };
                            if !takes {
                                continue;
                            }
                            let req = mk(i, *ok, *lat, *payload);
                            w2.log(Ev::Arrive { req: req.id });
                            if oneshot {
                                let id = req.id;
                                let out = mine.clone().oneshot(req).await;
                                let o = match out {
                                    Ok(r) => Outcome::ok(&r),
                                    Err(e) => e,
                                };
                                w2.log(Ev::Resolve { req: id, out: o });
                            } else {
                                do_call(&w2, &mut mine, req, false, &|e: &Outcome| e.clone()).await;
                            }
                        }
                        if done.fetch_add(1, Ordering::SeqCst) + 1 == n_actors as u64 {
                            w2.note("driver-done");
                        }
                    })
                });
                sim.start_at(0, a);
            }
        }
        sim.horizon = 120_000_000;
        sim.poll_cap = 400_000;
        if sim.p_yield == 0.0 {
            sim.p_yield = 0.1;
        }
    });
    let log = w.take_log();
    let mut rep = judge_t(&cfg, &log);
    if (stats.hit_poll_cap || stats.hit_horizon || !log.iter().any(|r| matches!(&r.ev, Ev::Note { what } if what == "driver-done"))) && rep.violations.is_empty() {
        rep.inconclusive = Some(format!("{}/{:?}: driver did not finish (poll_cap={} horizon={})", cfg.target, cfg.kind, stats.hit_poll_cap, stats.hit_horizon));
    }
    let mut s = Fnv::default();
    s.add_str(&cfg.target);
    s.add_str(&format!("{:?}", cfg.kind));
    for r in &cfg.reqs {
        s.add(r.0 as u64 * 7 + r.1);
    }
    s.add(cfg.clients as u64 * 2 + cfg.base_polled as u64);
    s.add(cfg.life);
    rep.sig = s.0;
    rep.case = json!({"cfg": format!("{cfg:?}")});
    rep.log = log;
    rep
}

pub fn judge_t(cfg: &TCfg, log: &[Rec]) -> Report {
    let mut rep = Report::default();
    let t = &cfg.target;
    let kind = match cfg.kind {
        InnerKind::Probe => "strict-probe",
        InnerKind::ProbePending(_) => "pending-probe",
        InnerKind::ProbeWarm(_) => "warming-probe",
        InnerKind::ProbeReadyErr => "ready-error",
        InnerKind::Buffer => "buffer",
        InnerKind::ConcurrencyLimit => "concurrency-limit",
    };
    // group events per request (sequential driver)
    let mut cur: Option<u64> = None;
    let mut inner_ready_since_arrive: Vec<u8> = vec![];
    let mut enters: HashMap<u64, Vec<(u64, u64, bool, u32)>> = HashMap::new(); // serial, payload, ready flag, attempt
    let mut resolved: HashMap<u64, Outcome> = HashMap::new();
    for r in log {
        match &r.ev {
            Ev::Arrive { req } => {
                cur = Some(*req);
                inner_ready_since_arrive.clear();
            }
            Ev::InnerReady { res, .. } => inner_ready_since_arrive.push(*res),
            Ev::OuterReady { req, ok } if cfg.clients == 0 => {
                if *ok {
                    let need_pending = match cfg.kind {
                        InnerKind::ProbePending(k) => k as usize,
                        _ => 0,
                    };
                    let pend = inner_ready_since_arrive.iter().filter(|x| **x == 1).count();
                    let readys = inner_ready_since_arrive.iter().filter(|x| **x == 0).count();
                    if matches!(cfg.kind, InnerKind::Probe | InnerKind::ProbePending(_) | InnerKind::ProbeWarm(_)) && (readys == 0 || pend < need_pending || inner_ready_since_arrive.last() != Some(&0)) {
                        rep.violate(
                            format!("C20:readiness:{t}:ready-without-inner-ready"),
                            format!("r{req}: outer poll_ready reported Ready but the wrapped service's poll_ready answers since arrival were {:?} (0 ready, 1 pending)", inner_ready_since_arrive),
                        );
                    }
                    if cfg.kind == InnerKind::ProbeReadyErr {
                        rep.violate(format!("C20:readiness:{t}:inner-readiness-error-swallowed"), format!("r{req}: the wrapped service's poll_ready fails but the outer poll_ready reported Ready"));
                    }
                }
                let _ = cur;
            }
            Ev::InnerEnter { req, serial, payload, ready, attempt, .. } => {
                enters.entry(*req).or_default().push((*serial, *payload, *ready, *attempt));
                if !*ready && matches!(cfg.kind, InnerKind::Probe | InnerKind::ProbePending(_) | InnerKind::ProbeWarm(_)) {
                    rep.violate(
                        format!("C20:readiness:{t}:call-on-unready-instance"),
                        format!("r{req} attempt {attempt}: the wrapped service was called on an instance on which readiness had not been observed since its previous call (inner {kind})"),
                    );
                }
            }
            Ev::Resolve { req, out } => {
                resolved.insert(*req, out.clone());
            }
            Ev::ActorPanic { msg, .. } => {
                let sig = if msg.contains("poll_ready must be called first") || msg.contains("without first calling `poll_reserve`") || msg.contains("poll_reserve") {
                    format!("C20:readiness:{t}:panic-in-{kind}")
                } else {
                    format!("C20:transparency:{t}:panic")
                };
                rep.violate(sig, format!("{t} over {kind}: {msg}"));
            }
            _ => {}
        }
    }
    for (i, (ok, _lat, payload)) in cfg.reqs.iter().enumerate() {
        let id = i as u64 + 1;
        let out = match resolved.get(&id) {
            Some(o) => o,
            None => continue,
        };
        if cfg.kind == InnerKind::ProbeReadyErr {
            // readiness errors surface as readiness errors, under the pass-through variant
            match out {
                Outcome::Inner { class: 5, .. } if !enters.contains_key(&id) => {}
                // Buffer-like sharing is not involved here, every clone fails its own readiness
                other => rep.violate(format!("C20:readiness:{t}:readiness-error-not-passed-through"), format!("r{id}: inner poll_ready failed with class 5; caller saw {} (inner calls: {})", other.short(), enters.get(&id).map(|v| v.len()).unwrap_or(0))),
            }
            continue;
        }
        let e = enters.get(&id).cloned().unwrap_or_default();
        if life_of(cfg, i).1 && !resolved.contains_key(&id) {
            // cancelled after its first poll: at most one inner call, nothing else to compare
            if e.len() > 1 {
                rep.violate(format!("C20:transparency:{t}:inner-calls"), format!("r{id} (cancelled after its first poll): wrapped service called {} times", e.len()));
            }
            continue;
        }
        if e.len() != 1 {
            rep.violate(format!("C20:transparency:{t}:inner-calls"), format!("r{id}: wrapped service called {} times in a non-triggering configuration (inner {kind})", e.len()));
            continue;
        }
        let (serial, seen, _, _) = e[0];
        if seen != *payload {
            rep.violate(format!("C20:transparency:{t}:request-altered"), format!("r{id}: wrapped service saw payload {seen}, caller sent {payload}"));
        }
        let expected = if *ok { Outcome::Ok { serial, req_id: id, payload: *payload, src: 0 } } else { Outcome::Inner { serial, req_id: id, class: 2 } };
        if *out != expected {
            rep.violate(format!("C20:transparency:{t}:result-altered"), format!("r{id}: wrapped service answered {}, caller saw {} (inner {kind})", expected.short(), out.short()));
        }
    }
    rep.count("requests", cfg.reqs.len() as u64);
    rep.bucket(format!("{t} over {kind}"));
    rep.bucket(match cfg.clients { 0 => "client:sequential".to_string(), 1 => "client:oneshot-on-clones".to_string(), k => format!("client:{k}-concurrent-clones") });
    rep.nontrivial = !resolved.is_empty();
    rep
}

// ---------------------------------------------------------------------------------------
// listeners only observe
// ---------------------------------------------------------------------------------------

pub const LISTENER_LAYERS: [&str; 9] = ["bulkhead", "cache", "chaos", "circuitbreaker", "fallback", "hedge", "ratelimiter", "retry", "timelimiter"];

/// Builds `layer` in a configuration whose workload fires its events, with 4 listeners; listener
/// j panics iff bit j of `mask` is set. Returns the service and the per-listener counters.
fn build_listened(name: &str, w: &Arc<World>, mask: u8, seed: u64) -> (Svc, Arc<[AtomicU64; 4]>) {
    let counts: Arc<[AtomicU64; 4]> = Arc::new([AtomicU64::new(0), AtomicU64::new(0), AtomicU64::new(0), AtomicU64::new(0)]);
    let hit = {
        let c = counts.clone();
        move |j: usize| {
            c[j].fetch_add(1, Ordering::SeqCst);
            if mask & (1 << j) != 0 {
                panic!("listener {j} panics on purpose");
            }
        }
    };
    let (h0, h1, h2, h3) = (hit.clone(), hit.clone(), hit.clone(), hit.clone());
    let inner = w.probe(1);
    let svc = match name {
        "bulkhead" => {
            let l = tower_resilience_bulkhead::BulkheadLayer::builder()
                .max_concurrent_calls(1)
                .max_wait_duration(Duration::from_millis(2))
                .on_call_permitted(move |_| h0(0))
                .on_call_permitted(move |_| h1(1))
                .on_call_rejected(move |_| h2(2))
                .on_call_finished(move |_| h3(3))
                .build();
            boxed_svc(l.layer(inner), |e| match e {
                tower_resilience_bulkhead::BulkheadServiceError::Inner(p) => Outcome::inner(&p),
                other => Outcome::layer(format!("{other:?}")),
            })
        }
        "cache" => {
            let l = tower_resilience_cache::CacheLayer::<Req, u32>::builder().max_size(2).key_extractor(|r: &Req| r.key).on_hit(move || h0(0)).on_miss(move || h1(1)).on_eviction(move || h2(2)).on_hit(move || h3(3)).build();
            boxed_svc(l.layer(inner), |e| match e {
                tower_resilience_cache::CacheError::Inner(p) => Outcome::inner(&p),
            })
        }
        "chaos" => {
            let l = tower_resilience_chaos::ChaosLayer::builder()
                .error_rate(0.3)
                .error_fn(|r: &Req| PErr { serial: 0, req_id: r.id, class: 77 })
                .latency_rate(0.3)
                .min_latency(Duration::from_millis(1))
                .max_latency(Duration::from_millis(3))
                .seed(seed)
                .on_error_injected(move || h0(0))
                .on_latency_injected(move |_| h1(1))
                .on_passed_through(move || h2(2))
                .on_passed_through(move || h3(3))
                .build();
            boxed_svc(l.layer(inner), |e: PErr| Outcome::inner(&e))
        }
        "circuitbreaker" => {
            let l = tower_resilience_circuitbreaker::CircuitBreakerLayer::builder()
                .failure_rate_threshold(0.5)
                .sliding_window_size(3)
                .minimum_number_of_calls(3)
                .wait_duration_in_open(Duration::from_millis(5))
                .on_call_permitted(move |_| h0(0))
                .on_call_permitted(move |_| h1(1))
                .on_state_transition(move |_, _| h2(2))
                .on_failure(move |_| h3(3))
                .build();
            boxed_svc(l.layer(inner), |e| crate::props::c04::map_err(&e))
        }
        "fallback" => {
            let l = tower_resilience_fallback::FallbackLayer::<Req, Resp, PErr>::builder()
                .value(Resp { serial: 0, req_id: 0, payload: 0, src: 99 })
                .handle(|e: &PErr| e.class == 1)
                .on_event(move |_| h0(0))
                .on_event(move |_| h1(1))
                .on_event(move |_| h2(2))
                .on_event(move |_| h3(3))
                .build();
            boxed_svc(l.layer(inner), |e| match e {
                tower_resilience_fallback::FallbackError::Inner(p) => Outcome::inner(&p),
                tower_resilience_fallback::FallbackError::FallbackFailed(p) => Outcome::layer_with("FallbackFailed", &p),
            })
        }
        "hedge" => {
            use tower_resilience_core::FnListener;
            use tower_resilience_hedge::HedgeEvent;
            let l = tower_resilience_hedge::HedgeLayer::builder()
                .delay(Duration::from_millis(2))
                .max_hedged_attempts(2)
                .on_event(FnListener::new(move |_: &HedgeEvent| h0(0)))
                .on_event(FnListener::new(move |_: &HedgeEvent| h1(1)))
                .on_event(FnListener::new(move |_: &HedgeEvent| h2(2)))
                .on_event(FnListener::new(move |_: &HedgeEvent| h3(3)))
                .build();
            boxed_svc(l.layer(inner), |e| match e {
                tower_resilience_hedge::HedgeError::Inner(p) => Outcome::inner(&p),
                tower_resilience_hedge::HedgeError::AllAttemptsFailed(p) => Outcome::layer_with("AllAttemptsFailed", &p),
            })
        }
        "ratelimiter" => {
            let l = tower_resilience_ratelimiter::RateLimiterLayer::builder()
                .limit_for_period(2)
                .refresh_period(Duration::from_millis(10))
                .timeout_duration(Duration::from_millis(3))
                .on_permit_acquired(move |_| h0(0))
                .on_permit_rejected(move |_| h1(1))
                .on_permit_acquired(move |_| h2(2))
                .on_permit_rejected(move |_| h3(3))
                .build();
            boxed_svc(l.layer(inner), |e| match e {
                tower_resilience_ratelimiter::RateLimiterServiceError::Inner(p) => Outcome::inner(&p),
                _ => Outcome::layer("RateLimited"),
            })
        }
        "retry" => {
            let l = tower_resilience_retry::RetryLayer::<Req, PErr>::builder()
                .max_attempts(3)
                .fixed_backoff(Duration::from_millis(1))
                .retry_on(|e: &PErr| e.class == 1)
                .on_retry(move |_, _| h0(0))
                .on_retry(move |_, _| h1(1))
                .on_success(move |_| h2(2))
                .on_error(move |_| h3(3))
                .build();
            boxed_svc(l.layer(inner), |e: PErr| Outcome::inner(&e))
        }
        "timelimiter" => {
            let l = tower_resilience_timelimiter::TimeLimiterLayer::builder()
                .timeout_duration(Duration::from_millis(4))
                .on_success(move |_| h0(0))
                .on_error(move |_| h1(1))
                .on_timeout(move || h2(2))
                .on_timeout(move || h3(3))
                .build();
            boxed_svc(l.layer(inner), |e| match e {
                tower_resilience_timelimiter::TimeLimiterError::Inner(p) => Outcome::inner(&p),
                _ => Outcome::layer("Timeout"),
            })
        }
        _ => panic!("no listeners on {name}"),
    };
    (svc, counts)
}

/// One seeded workload against `layer` with listener panic mask `mask`; returns the outcome
/// vector (request -> (outcome, virtual instant)) and the per-listener event counts.
fn run_listened(layer: &str, mask: u8, wl_seed: u64) -> (Vec<(u64, String, u64)>, [u64; 4], Vec<String>) {
    let mut counts_out = [0u64; 4];
    let mut panics = vec![];
    let (w, _stats, counts) = run_sim(wl_seed, |sim| {
        // identical scheduling for every mask: the workload seed fixes policy and script
        let w = sim.w.clone();
        let (svc, counts) = build_listened(layer, &w, mask, wl_seed);
        let mut rng = Prng::new(wl_seed ^ 0xABCD);
        let n = rng.range(6, 14);
        for i in 0..n {
            let id = i + 1;
            let class = if rng.chance(0.5) { 1 } else { 2 };
            let out = if rng.chance(0.55) { Out::Ok } else { Out::Err(class) };
            let lat = *rng.pick(&[0u64, 1000, 2000, 6000]);
            let mut req = Req::new(id, rng.below(4) as u32, vec![Step { lat: Lat::Us(lat), out }, Step { lat: Lat::Us(0), out: if rng.chance(0.5) { Out::Ok } else { Out::Err(class) } }]);
            req.payload = id;
            let a = sim.actor(id, crate::actors::caller(w.clone(), svc.clone(), req, false, |e: &Outcome| e.clone()));
            sim.start_at(rng.below(8) * 1000, a);
        }
        sim.horizon = 5_000_000;
        sim.p_spurious = 0.0;
        counts
    });
    for j in 0..4 {
        counts_out[j] = counts[j].load(Ordering::SeqCst);
    }
    let mut outs = vec![];
    for r in w.take_log() {
        match r.ev {
            Ev::Resolve { req, out } => outs.push((req, out.short(), r.t)),
            Ev::ActorPanic { req, msg } => panics.push(format!("r{req}: {msg}")),
            _ => {}
        }
    }
    outs.sort();
    (outs, counts_out, panics)
}

pub fn scenario_l(sseed: u64, _tier: Tier) -> Report {
    let mut rep = Report::default();
    let idx = (sseed % 1_000_003) as usize;
    let layer = LISTENER_LAYERS[idx % LISTENER_LAYERS.len()];
    let wl_seed = crate::prng::mix(sseed, 99);
    let (quiet_out, quiet_counts, quiet_panics) = run_listened(layer, 0, wl_seed);
    for p in &quiet_panics {
        rep.violate(format!("C20:listeners:{layer}:panic-without-panicking-listener"), p.clone());
    }
    let mut fired = 0u64;
    for mask in 1u8..16 {
        let (mut out, mut counts, mut panics) = run_listened(layer, mask, wl_seed);
        if out != quiet_out || counts.iter().zip(quiet_counts.iter()).any(|(a, b)| a != b) || !panics.is_empty() {
            // a verdict needs a reproducible difference: the workload is deterministic, so a real
            // effect of the panicking listeners shows up identically every time
            let mut same = true;
            for _ in 0..2 {
                let again = run_listened(layer, mask, wl_seed);
                let quiet_again = run_listened(layer, 0, wl_seed);
                if again.0 != out || again.1 != counts || quiet_again.0 != quiet_out || quiet_again.1 != quiet_counts {
                    same = false;
                }
            }
            if !same {
                rep.inconclusive = Some(format!("listeners:{layer}: a difference between the quiet and the panicking run (mask {mask:04b}) did not reproduce"));
                rep.count("unreproducible_differences", 1);
                let r = run_listened(layer, mask, wl_seed);
                out = r.0;
                counts = r.1;
                panics = r.2;
                if out != quiet_out || counts != quiet_counts {
                    continue;
                }
            }
        }
        for p in &panics {
            rep.violate(format!("C20:listeners:{layer}:listener-panic-escaped"), format!("mask {mask:04b}: {p}"));
        }
        if out != quiet_out {
            let diff: Vec<String> = out.iter().zip(quiet_out.iter()).filter(|(a, b)| a != b).take(3).map(|(a, b)| format!("r{}: {} at t={} (quiet run: {} at t={})", a.0, a.1, a.2, b.1, b.2)).collect();
            rep.violate(
                format!("C20:listeners:{layer}:outcome-changed"),
                format!("panicking listeners {mask:04b} changed call outcomes: {:?} ({} vs {} resolved calls)", diff, out.len(), quiet_out.len()),
            );
        }
        for j in 0..4 {
            if counts[j] != quiet_counts[j] {
                rep.violate(
                    format!("C20:listeners:{layer}:listener-starved"),
                    format!("panicking listeners {mask:04b}: listener {j} received {} events, {} in the all-quiet run", counts[j], quiet_counts[j]),
                );
            }
            if mask & (1 << j) != 0 && counts[j] > 0 {
                fired += 1;
            }
        }
        if rep.violations.len() > 4 {
            break;
        }
    }
    rep.count("listener_event_total_quiet", quiet_counts.iter().sum());
    rep.count("panicking_listener_subsets_run", 15);
    rep.bucket(format!("listeners:{layer}"));
    rep.nontrivial = fired > 0 && quiet_counts.iter().filter(|c| **c > 0).count() >= 2;
    rep.sig = crate::prng::mix(wl_seed, idx as u64);
    rep.case = json!({"layer": layer, "workload_seed": wl_seed, "quiet_counts": quiet_counts, "quiet_outcomes": quiet_out.iter().map(|o| format!("r{} {} @{}", o.0, o.1, o.2)).collect::<Vec<_>>()});
    rep
}

// ---------------------------------------------------------------------------------------
// readiness of the calls a layer makes on its own: retries, hedged attempts, reconnect attempts
// ---------------------------------------------------------------------------------------

pub fn scenario_e(sseed: u64, _tier: Tier) -> Report {
    let mut rng = Prng::new(sseed);
    let which = (sseed % 1_000_003) % 4;
    let (layer, log, case) = match which {
        0 => {
            let cfg = crate::props::c05::gen(&mut rng);
            let (w, _) = crate::props::c05::run(&cfg, rng.next());
            ("retry", w.take_log(), format!("{cfg:?}"))
        }
        1 => {
            let cfg = crate::props::c12::gen(&mut rng);
            let (w, _) = crate::props::c12::run(&cfg, rng.next());
            ("hedge", w.take_log(), format!("{cfg:?}"))
        }
        2 => {
            let cfg = crate::props::c16::gen(&mut rng);
            let (w, _) = crate::props::c16::run(&cfg, rng.next());
            ("reconnect", w.take_log(), format!("{cfg:?}"))
        }
        _ => {
            // breaker cycling through open / half-open: the trial call after the wait must also go
            // to an instance that was polled ready
            let cfg = crate::props::c03::gen(&mut rng, true);
            let (w, _) = crate::props::c03::run(&cfg, rng.next());
            ("circuitbreaker", w.take_log(), format!("{cfg:?}"))
        }
    };
    let mut rep = Report::default();
    let mut later_attempts = 0u64;
    let mut s = Fnv::default();
    for r in &log {
        if let Ev::InnerEnter { req, attempt, ready, inst, .. } = &r.ev {
            s.add(*req * 16 + *attempt as u64);
            if *attempt >= 1 {
                later_attempts += 1;
            }
            if !*ready {
                rep.violate(
                    format!("C20:readiness:{layer}:call-on-unready-instance:{}", if *attempt == 0 { "first-attempt" } else { "later-attempt" }),
                    format!("{layer}: r{req} attempt {attempt} was sent to instance i{inst} on which readiness had not been observed since its previous call"),
                );
            }
        }
    }
    rep.count("attempts_after_the_first", later_attempts);
    rep.bucket(format!("engaged:{layer}"));
    rep.nontrivial = later_attempts >= 1 || (which == 3 && log.iter().any(|r| matches!(&r.ev, Ev::Listener { name, b, .. } if name == "transition" && *b == 2)));
    s.add(which);
    rep.sig = s.0;
    rep.case = json!({"layer": layer, "cfg": case});
    rep.log = log.into_iter().filter(|r| !matches!(&r.ev, Ev::Listener { name, .. } if name == "state-sample")).collect();
    rep
}

// ---------------------------------------------------------------------------------------
// listeners that are slow (real time): the circuit breaker's slow-call detection must measure
// the wrapped call only. Runs on the real clock with wide margins; a difference must reproduce
// three times before it is reported (a scheduling stall cannot be a verdict).
// ---------------------------------------------------------------------------------------

fn run_slow_listener(slow: bool, n: u64) -> Vec<String> {
    let rt = tokio::runtime::Builder::new_current_thread().enable_time().build().unwrap();
    let w = World::new();
    let out = rt.block_on(async {
        let mk = move || {
            if slow {
                std::thread::sleep(Duration::from_millis(120));
            }
        };
        let (a, b) = (mk.clone(), mk.clone());
        let l = tower_resilience_circuitbreaker::CircuitBreakerLayer::builder()
            .failure_rate_threshold(1.0)
            .sliding_window_size(4)
            .minimum_number_of_calls(4)
            .slow_call_duration_threshold(Duration::from_millis(90))
            .slow_call_rate_threshold(0.5)
            .wait_duration_in_open(Duration::from_secs(3600))
            .on_call_permitted(move |_| a())
            .on_success(move |_| b())
            .build();
        let mut svc = l.layer(w.probe(1));
        let mut v = vec![];
        for i in 0..n {
            let req = Req::new(i + 1, 0, vec![Step { lat: Lat::Us(0), out: Out::Ok }]);
            let r = match std::future::poll_fn(|cx| svc.poll_ready(cx)).await {
                Ok(()) => svc.call(req).await,
                Err(e) => Err(e),
            };
            v.push(match r {
                Ok(_) => "ok".to_string(),
                Err(e) => crate::props::c04::map_err(&e).short(),
            });
        }
        v
    });
    out
}

pub fn scenario_slow(sseed: u64, _tier: Tier) -> Report {
    let mut rep = Report::default();
    let n = 6 + sseed % 3;
    let mut differing = 0;
    let mut last = (vec![], vec![]);
    for _ in 0..3 {
        let quiet = run_slow_listener(false, n);
        let slow = run_slow_listener(true, n);
        if quiet != slow {
            differing += 1;
        }
        last = (quiet, slow);
        if differing == 0 {
            break;
        }
    }
    if differing == 3 {
        rep.violate(
            "C20:listeners:circuitbreaker:slow-listener-changed-outcome",
            format!("with listeners that take 120ms each (slow-call threshold 90ms, instantaneous inner calls) the outcomes were {:?}; with quiet listeners {:?}", last.1, last.0),
        );
    } else if differing > 0 {
        rep.inconclusive = Some("a difference between the slow and the quiet run did not reproduce (scheduling stall?)".into());
    }
    rep.nontrivial = true;
    rep.sig = crate::prng::mix(sseed, n);
    rep.bucket("slow-listeners:circuitbreaker".to_string());
    rep.case = json!({"engine": "slow-listeners", "calls": n, "quiet": last.0, "slow": last.1});
    rep
}
