//! C06: time limiter resolves every call by its deadline (both cancellation modes).

use crate::actors::caller;
use crate::prng::{Fnv, Prng};
use crate::report::{Report, Tier};
use crate::sim::{run_sim, What};
use crate::world::{Ev, How, Lat, Out, Outcome, PErr, Rec, Req, Step, World};
use serde_json::json;
use std::collections::HashMap;
use std::sync::Arc;
use std::time::Duration;
use tower::Layer;
use tower_resilience_timelimiter::{TimeLimiterError, TimeLimiterLayer};

#[derive(Clone, Debug)]
struct Call {
    arrive_us: u64,
    t_us: u64,
    lat: Lat,
    fail: bool,
    pause: bool,
}

#[derive(Clone, Debug)]
pub struct Cfg {
    cancel: bool,
    per_request: bool,
    fixed_t_us: u64,
    /// builder order: cancel_running_future() before the timeout source, or after
    cancel_first: bool,
    /// every instance of the backend (the original and each clone) needs this long to become ready
    warm_us: u64,
    calls: Vec<Call>,
    /// (call index, from, to) in us after that call's arrival: the caller is not polled in between
    /// (a busy executor, a sibling future hogging the task); whole milliseconds
    stall: Option<(usize, u64, u64)>,
}

/// "no limit" timeouts: an unusual but valid configuration
const HUGE: [u64; 2] = [u64::MAX, 366 * 86_400_000_000];

fn dur(us: u64) -> Duration {
    if us == u64::MAX { Duration::MAX } else { Duration::from_micros(us) }
}

pub fn gen(rng: &mut Prng) -> Cfg {
    let per_request = rng.chance(0.5);
    let fixed_t_us = if rng.chance(0.06) { *rng.pick(&HUGE) } else { *rng.pick(&[1000u64, 10_000, 50_000, 10_000, 0]) };
    let n = rng.range(1, 6);
    let mut calls = vec![];
    for _ in 0..n {
        let t = if per_request { if rng.chance(0.08) { *rng.pick(&HUGE) } else { *rng.pick(&[1000u64, 10_000, 50_000, 5000, 0]) } } else { fixed_t_us };
        let lat = if t >= HUGE[1] {
            *rng.pick(&[Lat::Us(0), Lat::Us(5000), Lat::Us(200_000)])
        } else { match rng.below(8) {
            0 => Lat::Us(0),
            1 => Lat::Us(t.saturating_sub(1000)),
            2 | 3 => Lat::Us(t),
            4 => Lat::Us(t + 1000),
            5 => Lat::Us(3 * t),
            6 => Lat::Never,
            _ => Lat::Us(rng.below(2 * t / 1000 + 1) * 1000),
        } };
        calls.push(Call { arrive_us: rng.below(6) * 1000 * if rng.chance(0.5) { 1 } else { 5 }, t_us: t, lat, fail: rng.chance(0.3), pause: rng.chance(0.2) });
    }
    let warm_us = if rng.chance(0.12) { *rng.pick(&[2000u64, 7000, 30_000]) } else { 0 };
    let stall = if warm_us == 0 && rng.chance(0.15) {
        let i = rng.below(calls.len() as u64) as usize;
        let t = calls[i].t_us;
        if t >= HUGE[1] || t == 0 {
            None
        } else {
            let from = *rng.pick(&[0u64, 1000, t / 2 / 1000 * 1000]);
            let to = t + *rng.pick(&[1000u64, 5000, 20_000]);
            Some((i, from, to.max(from + 1000)))
        }
    } else {
        None
    };
    Cfg { cancel: rng.chance(0.5), per_request, fixed_t_us, cancel_first: rng.chance(0.5), warm_us, calls, stall }
}

fn map_err(e: &TimeLimiterError<PErr>) -> Outcome {
    match e {
        TimeLimiterError::Inner(p) => Outcome::inner(p),
        TimeLimiterError::Timeout => Outcome::layer("Timeout"),
    }
}

pub fn run(cfg: &Cfg, seed: u64) -> (Arc<World>, crate::sim::SimStats) {
    let (w, stats, ()) = run_sim(seed, |sim| {
        let w = sim.w.clone();
        let mut end = 0;
        macro_rules! go {
            ($layer:expr) => {{
                let probe = if cfg.warm_us > 0 { w.probe(1).with_ready(crate::world::ReadyScript::WarmUp(cfg.warm_us)) } else { w.probe(1) };
                let svc = $layer.layer(probe);
                for (i, c) in cfg.calls.iter().enumerate() {
                    let mut req = Req::new(i as u64 + 1, 0, vec![Step { lat: c.lat, out: if c.fail { Out::Err(1) } else { Out::Ok } }]);
                    req.payload = c.t_us;
                    let stalled = cfg.stall.filter(|st| st.0 == i);
                    let a = if stalled.is_some() {
                        // the stalled caller is a plain client: its first poll is its arrival
                        sim.actor(req.id, crate::actors::caller_linger(w.clone(), svc.clone(), req, false, crate::actors::Linger::No, map_err))
                    } else {
                        sim.actor(req.id, caller(w.clone(), svc.clone(), req, c.pause, map_err))
                    };
                    sim.start_at(c.arrive_us, a);
                    if let Some((_, from, to)) = stalled {
                        sim.at(c.arrive_us + from, What::Suspend(a));
                        sim.at(c.arrive_us + to, What::Resume(a));
                        end = end.max(c.arrive_us + to + 5000);
                    }
                    let l = match c.lat {
                        Lat::Us(n) => n,
                        _ => 0,
                    };
                    end = end.max(c.arrive_us + 160_000 + 2 * cfg.warm_us + l.max(if c.t_us >= HUGE[1] { 0 } else { c.t_us }) + 5000);
                }
            }};
        }
        match (cfg.per_request, cfg.cancel_first) {
            (true, false) => {
                let layer = TimeLimiterLayer::builder().timeout_fn(|r: &Req| dur(r.payload)).cancel_running_future(cfg.cancel).build();
                go!(layer);
            }
            (true, true) => {
                let layer = TimeLimiterLayer::builder().cancel_running_future(cfg.cancel).timeout_fn(|r: &Req| dur(r.payload)).build();
                go!(layer);
            }
            (false, false) => {
                let layer = TimeLimiterLayer::builder().timeout_duration(dur(cfg.fixed_t_us)).cancel_running_future(cfg.cancel).build();
                go!(layer);
            }
            (false, true) => {
                let layer = TimeLimiterLayer::builder().cancel_running_future(cfg.cancel).timeout_duration(dur(cfg.fixed_t_us)).build();
                go!(layer);
            }
        }
        // keep virtual time running past the slowest inner call to see background completion
        sim.at(end, What::Nop);
        sim.horizon = end + 1_000_000;
    });
    (w, stats)
}

pub fn scenario(sseed: u64, _tier: Tier) -> Report {
    let mut rng = Prng::new(sseed);
    let cfg = gen(&mut rng);
    let (w, stats) = run(&cfg, rng.next());
    let log = w.take_log();
    let mut rep = judge(&cfg, &log);
    let mut sig = Fnv::default();
    sig.add(stats.trace_sig);
    for r in &log {
        if let Ev::Resolve { req, out } = &r.ev {
            sig.add(*req);
            sig.add(r.t);
            sig.add_str(&out.short());
        }
    }
    sig.add(cfg.cancel as u64);
    rep.sig = sig.0;
    rep.count("polls", stats.polls);
    rep.count("events", log.len() as u64);
    if stats.hit_poll_cap || stats.hit_horizon {
        rep.inconclusive = Some(format!("poll_cap={} horizon={}", stats.hit_poll_cap, stats.hit_horizon));
    }
    rep.case = json!({"cfg": format!("{cfg:?}")});
    rep.log = log;
    rep
}

pub fn judge(cfg: &Cfg, log: &[Rec]) -> Report {
    let mut rep = Report::default();
    let mode = if cfg.cancel { "cancel" } else { "detach" };
    let mut first_poll: HashMap<u64, u64> = HashMap::new();
    let mut enter: HashMap<u64, (u64, u64)> = HashMap::new();
    let mut exit: HashMap<u64, (u64, How)> = HashMap::new();
    let mut resolve: HashMap<u64, (u64, Outcome)> = HashMap::new();
    for r in log {
        match &r.ev {
            Ev::FirstPoll { req } => {
                first_poll.insert(*req, r.t);
            }
            Ev::InnerEnter { req, serial, .. } => {
                if enter.insert(*req, (r.t, *serial)).is_some() {
                    rep.violate(format!("C06:{mode}:double-inner-call"), format!("r{req} reached the inner service twice"));
                }
            }
            Ev::InnerExit { req, how, .. } => {
                exit.insert(*req, (r.t, how.clone()));
            }
            Ev::Resolve { req, out } => {
                resolve.insert(*req, (r.t, out.clone()));
            }
            Ev::ActorPanic { req, msg } => rep.violate(format!("C06:{mode}:library-panic"), format!("r{req}: {msg}")),
            _ => {}
        }
    }
    let mut timeouts = 0;
    let mut near = 0;
    for (i, c) in cfg.calls.iter().enumerate() {
        let id = i as u64 + 1;
        let start = match first_poll.get(&id) {
            Some(s) => *s,
            None => continue,
        };
        let t = c.t_us;
        let deadline = start.saturating_add(t);
        let (rt, out) = match resolve.get(&id) {
            Some(x) => x.clone(),
            None => {
                rep.violate(format!("C06:{mode}:never-resolved"), format!("r{id} (timeout {t}us, inner {:?}) was still pending {}us after its deadline", c.lat, 5000));
                continue;
            }
        };
        let is_timeout = matches!(&out, Outcome::Layer { kind, .. } if kind == "Timeout");
        if is_timeout {
            timeouts += 1;
        }
        let serial = enter.get(&id).map(|e| e.1);
        let inner_matches = |o: &Outcome| match o {
            Outcome::Ok { serial: s, req_id, .. } => !c.fail && Some(*s) == serial && *req_id == id,
            Outcome::Inner { serial: s, .. } => c.fail && Some(*s) == serial,
            _ => false,
        };
        let desc = format!("r{id}: first poll t={start}us, timeout {t}us, inner latency {:?} ({}), answered {} at t={rt}us", c.lat, if c.fail { "err" } else { "ok" }, out.short());
        if let Some((_, from, to)) = cfg.stall.filter(|st| st.0 == i) {
            // a caller that is not polled cannot notice anything before it is polled again
            let (s_abs, e_abs) = (c.arrive_us + from, c.arrive_us + to);
            let noticed = |x: u64| if x >= s_abs && x < e_abs { e_abs } else { x };
            let desc = format!("{desc}; the caller was not polled from t={s_abs}us to t={e_abs}us");
            match c.lat {
                Lat::Us(l) if l < t => {
                    // finished before its deadline: the inner result, whenever the caller looks
                    if !(rt == noticed(start + l) && inner_matches(&out)) {
                        rep.violate(format!("C06:{mode}:fast-call-wrong-answer-after-late-poll"), desc);
                    }
                }
                Lat::Us(l) if start + l <= e_abs && deadline >= s_abs && deadline < e_abs => {
                    // both the deadline and the completion passed while nobody looked: either answer
                    if !(rt == e_abs && (inner_matches(&out) || is_timeout)) {
                        rep.violate(format!("C06:{mode}:late-poll-wrong-answer"), desc);
                    }
                }
                Lat::Us(l) if l == t => {
                    if !(rt == noticed(deadline) && (inner_matches(&out) || is_timeout)) {
                        rep.violate(format!("C06:{mode}:deadline-tie-wrong-answer"), desc);
                    }
                }
                _ => {
                    if !(rt == noticed(deadline) && is_timeout) {
                        rep.violate(format!("C06:{mode}:slow-call-wrong-answer"), desc);
                    }
                }
            }
            rep.count("late_polled_calls", 1);
            continue;
        }
        match c.lat {
            Lat::Us(l) if l < t => {
                if !(rt == start + l && inner_matches(&out)) {
                    rep.violate(format!("C06:{mode}:fast-call-wrong-answer"), desc.clone());
                }
            }
            Lat::Us(l) if l == t => {
                near += 1;
                if !(rt == deadline && (inner_matches(&out) || is_timeout)) {
                    rep.violate(format!("C06:{mode}:deadline-tie-wrong-answer"), desc.clone());
                }
            }
            _ => {
                if !(rt == deadline && is_timeout) {
                    rep.violate(format!("C06:{mode}:slow-call-wrong-answer"), desc.clone());
                }
            }
        }
        if let Lat::Us(l) = c.lat {
            if l + 1000 == t || l == t.saturating_add(1000) {
                near += 1;
            }
        }
        // what happened to the inner call
        let ex = exit.get(&id);
        if is_timeout {
            if cfg.cancel {
                match ex {
                    Some((et, How::Dropped)) if *et == deadline => {}
                    other => rep.violate("C06:cancel:inner-not-dropped-at-deadline", format!("{desc}; inner call exit = {other:?}, expected Dropped at t={deadline}us")),
                }
            } else {
                match (c.lat, ex) {
                    (Lat::Us(l), Some((et, how))) if *et == start_inner(&enter, id) + l && matches!(how, How::Ok | How::Err(_)) => {}
                    (Lat::Never, None) => {}
                    (_, other) => rep.violate("C06:detach:inner-did-not-run-to-completion", format!("{desc}; inner call exit = {other:?}, expected completion in the background")),
                }
            }
        }
    }
    rep.count("timeouts", timeouts);
    rep.count("near_deadline_calls", near);
    rep.bucket(format!("{mode} per_request={} cancel_first={} huge={}", cfg.per_request, cfg.cancel_first, cfg.calls.iter().any(|c| c.t_us >= HUGE[1])));
    rep.nontrivial = timeouts >= 1 && near >= 1;
    rep
}

fn start_inner(enter: &HashMap<u64, (u64, u64)>, id: u64) -> u64 {
    enter.get(&id).map(|e| e.0).unwrap_or(0)
}

// ---------------------------------------------------------------------------------------
// real-clock engine: an inner call that stays busy and yields cooperatively (it uses up tokio's
// per-task budget on every poll) must still be cut off at the deadline. Not expressible on the
// paused clock: a task that never goes idle keeps virtual time from advancing.
// ---------------------------------------------------------------------------------------

struct BusyFlags {
    stop: std::sync::atomic::AtomicBool,
    started: std::sync::atomic::AtomicBool,
    dropped: std::sync::atomic::AtomicBool,
    completed: std::sync::atomic::AtomicBool,
}

#[derive(Clone)]
struct Busy(Arc<BusyFlags>);

struct BusyGuard(Arc<BusyFlags>);
impl Drop for BusyGuard {
    fn drop(&mut self) {
        if !self.0.completed.load(std::sync::atomic::Ordering::SeqCst) {
            self.0.dropped.store(true, std::sync::atomic::Ordering::SeqCst);
        }
    }
}

impl tower::Service<Req> for Busy {
    type Response = crate::world::Resp;
    type Error = PErr;
    type Future = std::pin::Pin<Box<dyn std::future::Future<Output = Result<crate::world::Resp, PErr>> + Send>>;
    fn poll_ready(&mut self, _: &mut std::task::Context<'_>) -> std::task::Poll<Result<(), PErr>> {
        std::task::Poll::Ready(Ok(()))
    }
    fn call(&mut self, r: Req) -> Self::Future {
        let f = self.0.clone();
        Box::pin(async move {
            use std::sync::atomic::Ordering::SeqCst;
            let _g = BusyGuard(f.clone());
            f.started.store(true, SeqCst);
            // busy, but polite: gives the scheduler a chance on every iteration
            while !f.stop.load(SeqCst) {
                tokio::task::consume_budget().await;
            }
            f.completed.store(true, SeqCst);
            Ok(crate::world::Resp { serial: 1, req_id: r.id, payload: r.payload, src: 0 })
        })
    }
}

pub fn busy_inner(sseed: u64) -> Report {
    use std::sync::atomic::{AtomicBool, Ordering::SeqCst};
    use tower::{Service, ServiceExt};
    let mut rng = Prng::new(sseed);
    let mut rep = Report::default();
    let cancel = rng.chance(0.5);
    let per_request = rng.chance(0.5);
    let multi = rng.chance(0.5);
    let timeout_ms = *rng.pick(&[5u64, 20, 50]);
    let flags = Arc::new(BusyFlags { stop: AtomicBool::new(false), started: AtomicBool::new(false), dropped: AtomicBool::new(false), completed: AtomicBool::new(false) });
    let rt = if multi {
        tokio::runtime::Builder::new_multi_thread().worker_threads(2).enable_time().build()
    } else {
        tokio::runtime::Builder::new_current_thread().enable_time().build()
    };
    let rt = match rt {
        Ok(rt) => rt,
        Err(e) => {
            rep.inconclusive = Some(format!("cannot build a runtime: {e}"));
            return rep;
        }
    };
    let f2 = flags.clone();
    // (outcome, resolved within the watchdog, ms until resolved)
    let res: (Option<Result<(), String>>, u128) = rt.block_on(async move {
        let t = Duration::from_millis(timeout_ms);
        let started = std::time::Instant::now();
        let fut: std::pin::Pin<Box<dyn std::future::Future<Output = Result<crate::world::Resp, TimeLimiterError<PErr>>> + Send>> = if per_request {
            let mut svc = TimeLimiterLayer::builder().timeout_fn(move |_r: &Req| t).cancel_running_future(cancel).build().layer(Busy(f2.clone()));
            let _ = svc.ready().await;
            Box::pin(svc.call(Req::new(1, 0, vec![])))
        } else {
            let mut svc = TimeLimiterLayer::builder().timeout_duration(t).cancel_running_future(cancel).build().layer(Busy(f2.clone()));
            let _ = svc.ready().await;
            Box::pin(svc.call(Req::new(1, 0, vec![])))
        };
        // the call is driven by a task of its own, like any request handler
        let h = tokio::spawn(fut);
        // generous watchdog on the real clock: 400x the longest timeout
        let mut waited = 0u64;
        while !h.is_finished() && waited < 20_000 {
            tokio::time::sleep(Duration::from_millis(10)).await;
            waited += 10;
        }
        if !h.is_finished() {
            // give a frozen-then-resumed process the chance to fire the layer's own timer first
            for _ in 0..20 {
                tokio::time::sleep(Duration::from_millis(25)).await;
            }
        }
        let elapsed = started.elapsed().as_millis();
        if !h.is_finished() {
            f2.stop.store(true, SeqCst);
            let _ = h.await;
            return (None, elapsed);
        }
        let out = match h.await {
            Ok(Ok(_)) => Ok(()),
            Ok(Err(TimeLimiterError::Timeout)) => Err("Timeout".to_string()),
            Ok(Err(e)) => Err(format!("{e:?}")),
            Err(e) => Err(format!("join error {e}")),
        };
        if !cancel && out == Err("Timeout".to_string()) && !f2.dropped.load(SeqCst) {
            // the detached call keeps running on this runtime: tell it to finish and let it
            f2.stop.store(true, SeqCst);
            let mut w = 0;
            while !f2.completed.load(SeqCst) && !f2.dropped.load(SeqCst) && w < 10_000 {
                tokio::time::sleep(Duration::from_millis(5)).await;
                w += 5;
            }
        } else {
            tokio::time::sleep(Duration::from_millis(20)).await;
        }
        (Some(out), elapsed)
    });
    let mode = if cancel { "cancel" } else { "detach" };
    match &res.0 {
        None => rep.violate(
            format!("C06:{mode}:busy-inner-not-cut-off"),
            format!("timeout {timeout_ms} ms, inner call busy but yielding cooperatively: the call was still unresolved after {} ms of real time", res.1),
        ),
        Some(Ok(())) => rep.violate(format!("C06:{mode}:busy-inner-not-cut-off"), format!("timeout {timeout_ms} ms: the call resolved with the inner result although the inner call only ends when told to")),
        Some(Err(e)) if e == "Timeout" => {
            if cancel {
                // the inner call is dropped at the deadline
                if !flags.dropped.load(SeqCst) {
                    rep.violate("C06:cancel:inner-not-dropped", format!("timeout {timeout_ms} ms: timed out, but the busy inner call was not dropped"));
                }
            } else if flags.dropped.load(SeqCst) {
                // it must keep running in the background and finish once it can
                rep.violate("C06:detach:inner-did-not-run-to-completion", format!("timeout {timeout_ms} ms: timed out and the busy inner call was dropped although cancellation is disabled"));
            } else if !flags.completed.load(SeqCst) {
                rep.inconclusive = Some("detached busy inner call did not finish within 10 s after it was told to".into());
            }
        }
        Some(Err(e)) => rep.violate(format!("C06:{mode}:unexpected-outcome"), format!("busy inner call, timeout {timeout_ms} ms: {e}")),
    }
    flags.stop.store(true, SeqCst);
    rt.shutdown_timeout(Duration::from_secs(2));
    rep.nontrivial = flags.started.load(SeqCst);
    rep.sig = crate::prng::mix(sseed % 1000, (cancel as u64) * 8 + (per_request as u64) * 4 + (multi as u64) * 2 + timeout_ms);
    rep.count("busy_inner_runs", 1);
    rep.count("busy_inner_resolved_after_ms_total", res.1 as u64);
    rep.bucket(format!("busy-inner {mode} per_request={per_request} multi_thread={multi} timeout={timeout_ms}ms"));
    rep.case = json!({"engine": "busy-inner", "cancel": cancel, "per_request": per_request, "multi_thread_runtime": multi, "timeout_ms": timeout_ms, "resolved_after_ms": res.1 as u64, "outcome": format!("{:?}", res.0)});
    rep
}
