//! C16: reconnect retries only connection failures, a bounded number of times, waits the
//! policy's delay, returns the first success or an error wrapping the last inner error, and
//! publishes a sensible connection state.

use crate::actors::boxed;
use crate::prng::{Fnv, Prng};
use crate::report::{Report, Tier};
use crate::sim::{run_sim, What};
use crate::world::{Ev, How, Lat, Out, Outcome, PErr, Rec, Req, Step, World};
use serde_json::json;
use std::sync::Arc;
use std::time::Duration;
use tower::{Layer, Service};
use tower_resilience_reconnect::{ConnectionState, ReconnectConfig, ReconnectLayer, ReconnectPolicy, ReconnectService};

/// the error enum is public but not re-exported by the crate: name it through the service
type ReconnectError = <ReconnectService<crate::world::Probe> as Service<Req>>::Error;
use tower_resilience_retry::IntervalFunction;

#[derive(Clone, Debug)]
enum Pol {
    None,
    Fixed(u64),
    Exp(u64, u64),
    Jitter(u64, u64, f64),
    Custom,
    Default,
}

#[derive(Clone, Debug)]
pub struct Cfg {
    pol: Pol,
    /// wrap the policy in a logging Custom adapter (the oracle then knows the exact delay asked)
    wrapped: bool,
    max_attempts: Option<u32>,
    defaults_layer: bool,
    retry_on_reconnect: bool,
    predicate: bool,
    /// requests; each: per-attempt (latency us, outcome 0 ok / 1 reconnectable / 2 other)
    reqs: Vec<Vec<(u64, u8)>>,
    /// 1 = one sequential client; 2 = two clients on clones of the service (same layer state),
    /// request i belongs to client i % 2
    drivers: usize,
}

pub fn gen(rng: &mut Prng) -> Cfg {
    let defaults_layer = rng.chance(0.05);
    let pol = if defaults_layer {
        Pol::Default
    } else {
        match rng.below(7) {
            0 => Pol::None,
            1 => Pol::Fixed(*rng.pick(&[0u64, 1000, 7000])),
            2 | 3 => Pol::Exp(*rng.pick(&[1000u64, 2000]), *rng.pick(&[3000u64, 20_000])),
            4 => Pol::Jitter(2000, 10_000, *rng.pick(&[0.0, 0.5, 1.0])),
            5 => Pol::Custom,
            _ => Pol::Default,
        }
    };
    let max_attempts = if defaults_layer { None } else { *rng.pick(&[Some(0u32), Some(1), Some(2), Some(5), None]) };
    let predicate = if defaults_layer { false } else { rng.chance(0.5) };
    let n = rng.range(1, 5);
    let fail_bias = *rng.pick(&[0.4, 0.7, 0.9]);
    let mut reqs = vec![];
    for _ in 0..n {
        let len = rng.range(1, 8);
        let mut s: Vec<(u64, u8)> = (0..len)
            .map(|_| {
                let o = if rng.chance(fail_bias) { if rng.chance(0.75) { 1 } else { 2 } } else { 0 };
                (*rng.pick(&[0u64, 0, 1000, 4000]), o)
            })
            .collect();
        if max_attempts.is_none() {
            // an unbounded loop needs a script that ends
            s.push((0, if !predicate || rng.chance(0.5) { 0 } else { 2 }));
        }
        reqs.push(s);
    }
    Cfg { pol: pol.clone(), wrapped: !matches!(pol, Pol::None) && !defaults_layer && rng.chance(0.6), max_attempts, defaults_layer, retry_on_reconnect: defaults_layer || rng.chance(0.8), predicate, reqs, drivers: if rng.chance(0.3) { 2 } else { 1 } }
}

fn policy(p: &Pol) -> ReconnectPolicy {
    match p {
        Pol::None => ReconnectPolicy::none(),
        Pol::Fixed(d) => ReconnectPolicy::fixed(Duration::from_micros(*d)),
        Pol::Exp(i, m) => ReconnectPolicy::exponential(Duration::from_micros(*i), Duration::from_micros(*m)),
        Pol::Jitter(i, m, f) => ReconnectPolicy::exponential_random(Duration::from_micros(*i), Duration::from_micros(*m), *f),
        Pol::Custom => ReconnectPolicy::Custom(Arc::new(tower_resilience_retry::FnInterval::new(|a: usize| Duration::from_micros([3000u64, 0, 9000, 1000][a % 4])))),
        Pol::Default => ReconnectPolicy::default(),
    }
}

struct LogPolicy {
    inner: ReconnectPolicy,
    w: Arc<World>,
}
impl IntervalFunction for LogPolicy {
    fn next_interval(&self, attempt: usize) -> Duration {
        let d = self.inner.delay_for_attempt(attempt).unwrap_or(Duration::ZERO);
        self.w.log(Ev::Listener { name: "policy-delay".into(), a: attempt as u64, b: d.as_micros() as u64 });
        d
    }
}

fn map_err(e: &ReconnectError) -> Outcome {
    match e {
        ReconnectError::ServiceError(p) => Outcome::inner(p),
        ReconnectError::ConnectionFailed(p) => Outcome::layer_with("ConnectionFailed", p),
        ReconnectError::ConnectionFailedNoRetry(p) => Outcome::layer_with("ConnectionFailedNoRetry", p),
        ReconnectError::MaxAttemptsExceeded { error, .. } => match error.downcast_ref::<PErr>() {
            Some(p) => Outcome::layer_with("MaxAttemptsExceeded", p),
            None => Outcome::layer("MaxAttemptsExceeded(?)"),
        },
    }
}

fn st(s: ConnectionState) -> u64 {
    match s {
        ConnectionState::Connected => 0,
        ConnectionState::Disconnected => 1,
        ConnectionState::Reconnecting => 2,
    }
}

pub fn run(cfg: &Cfg, seed: u64) -> (Arc<World>, crate::sim::SimStats) {
    let (w, stats, ()) = run_sim(seed, |sim| {
        let w = sim.w.clone();
        let layer = if cfg.defaults_layer {
            ReconnectLayer::with_defaults()
        } else {
            let pol = if cfg.wrapped { ReconnectPolicy::Custom(Arc::new(LogPolicy { inner: policy(&cfg.pol), w: w.clone() })) } else { policy(&cfg.pol) };
            let mut b = ReconnectConfig::builder().policy(pol).retry_on_reconnect(cfg.retry_on_reconnect);
            b = match cfg.max_attempts {
                Some(m) => b.max_attempts(m),
                None => b.unlimited_attempts(),
            };
            if cfg.predicate {
                b = b.reconnect_predicate(|e: &dyn std::error::Error| e.to_string().contains("class=1"));
            }
            ReconnectLayer::new(b.build())
        };
        let state = layer.state().clone();
        let svc0 = layer.layer(w.probe(1));
        let mut drivers = vec![];
        for d in 0..cfg.drivers {
            let mut svc = svc0.clone();
            let reqs: Vec<(u64, Vec<(u64, u8)>)> = cfg.reqs.iter().enumerate().filter(|(i, _)| i % cfg.drivers == d).map(|(i, s)| (i as u64 + 1, s.clone())).collect();
            let w2 = w.clone();
            let state2 = state.clone();
            let a = sim.actor(9000 + d as u64, move || {
                boxed(async move {
                    for (id, script) in reqs.iter() {
                        let id = *id;
                        let steps: Vec<Step> = script.iter().map(|(l, o)| Step { lat: Lat::Us(*l), out: match o { 0 => Out::Ok, 1 => Out::Err(1), _ => Out::Err(2) } }).collect();
                        let req = Req::new(id, 0, steps);
                        w2.log(Ev::Arrive { req: id });
                        let o = crate::actors::do_call(&w2, &mut svc, req, false, &map_err).await;
                        w2.log(Ev::Listener { name: format!("state-after-call:{id}"), a: st(state2.state()), b: matches!(o, Outcome::Ok { .. }) as u64 });
                        // the other half of the published connection state: when was it last connected
                        let since = state2.time_since_connected();
                        w2.log(Ev::Listener { name: "since-connected".into(), a: since.is_some() as u64, b: since.map(|d| d.as_millis() as u64).unwrap_or(0) });
                        tokio::time::sleep(Duration::from_micros(500)).await;
                    }
                    w2.note("driver-done");
                })
            });
            sim.start_at(0, a);
            drivers.push(a);
        }
        // sampler: published connection state every 500us of virtual time
        let w3 = w.clone();
        let smp = sim.actor(9999, move || {
            boxed(async move {
                loop {
                    w3.log(Ev::Listener { name: "state-sample".into(), a: st(state.state()), b: 0 });
                    tokio::time::sleep(Duration::from_micros(500)).await;
                }
            })
        });
        sim.start_at(0, smp);
        let total: u64 = cfg.reqs.iter().map(|s| s.iter().map(|x| x.0 + 6_000_000).sum::<u64>()).sum();
        sim.at(total.min(200_000_000), What::Drop(smp));
        for a in drivers {
            sim.at(total.min(200_000_000), What::Drop(a));
        }
        sim.horizon = total + 1_000_000;
        sim.p_spurious = 0.0;
        sim.poll_cap = 2_000_000;
    });
    (w, stats)
}

pub fn scenario(sseed: u64, _tier: Tier) -> Report {
    let mut rng = Prng::new(sseed);
    let cfg = gen(&mut rng);
    let (w, stats) = run(&cfg, rng.next());
    let log = w.take_log();
    let mut rep = judge(&cfg, &log);
    let mut sig = Fnv::default();
    for r in &log {
        match &r.ev {
            Ev::InnerEnter { req, attempt, .. } => {
                sig.add(*req * 16 + *attempt as u64);
                sig.add(r.t);
            }
            Ev::Resolve { req, out } => {
                sig.add(*req);
                sig.add_str(&out.short());
            }
            _ => {}
        }
    }
    sig.add_str(&format!("{:?}{:?}{}{}", cfg.pol, cfg.max_attempts, cfg.retry_on_reconnect, cfg.predicate));
    rep.sig = sig.0;
    rep.count("polls", stats.polls);
    if stats.hit_poll_cap {
        rep.inconclusive = Some("poll cap".into());
    }
    if log.iter().filter(|r| matches!(&r.ev, Ev::Note { what } if what == "driver-done")).count() < cfg.drivers && rep.violations.is_empty() {
        rep.inconclusive = Some("driver did not finish".into());
    }
    rep.case = json!({"cfg": format!("{cfg:?}")});
    rep.log = log.into_iter().filter(|r| !matches!(&r.ev, Ev::Listener { name, .. } if name == "state-sample")).collect();
    rep
}

pub fn judge(cfg: &Cfg, log: &[Rec]) -> Report {
    let mut rep = Report::default();
    // "last connected": unknown before the first inner success, known after a request has
    // resolved with a success (whatever the clock says in between)
    {
        // (with retry_on_reconnect(false) the layer publishes Connected after the reconnection it
        // assumes to have happened, see DESIGN §9: "last connected" then goes with the published state)
        let (mut inner_ok, mut resolved_ok) = (false, false);
        for r in log {
            match &r.ev {
                Ev::InnerExit { how: How::Ok, .. } => inner_ok = true,
                Ev::Listener { name, a: 0, .. } if name == "state-sample" || name.starts_with("state-after-call") => inner_ok = true,
                Ev::Resolve { out: Outcome::Ok { .. }, .. } => resolved_ok = true,
                Ev::Listener { name, a, b } if name == "since-connected" => {
                    rep.count("last_connected_reads", 1);
                    if resolved_ok && *a == 0 && rep.violations.is_empty() {
                        rep.violate("C16:never-connected-after-success", format!("t={}us: a request has resolved with a success (state Connected), but time_since_connected() says the connection was never established", r.t));
                    }
                    if !inner_ok && *a == 1 && rep.violations.is_empty() {
                        rep.violate("C16:connected-before-any-success", format!("t={}us: time_since_connected() = {b} ms although no inner call has succeeded and Connected was never published", r.t));
                    }
                }
                _ => {}
            }
        }
    }
    let native = policy(&cfg.pol);
    let mut retries = 0u64;
    let mut other_path = false;
    for (i, script) in cfg.reqs.iter().enumerate() {
        let id = i as u64 + 1;
        // attempts of this request
        let mut atts: Vec<(u64, u64, Option<(u64, How)>)> = vec![]; // enter t, serial, exit
        let mut delays: Vec<Option<u64>> = vec![];
        let mut resolved: Option<(u64, Outcome)> = None;
        let mut state_after: Option<(u64, bool)> = None;
        // state samples while a reconnectable failure is being handled
        let mut handling = false;
        // the policy is asked in the same poll as the failure it follows: attribute a delay to
        // this request only while no other inner event has intervened
        let mut just_exited = false;
        for r in log {
            match &r.ev {
                Ev::InnerEnter { req, .. } | Ev::InnerExit { req, .. } | Ev::Resolve { req, .. } if *req != id => just_exited = false,
                _ => {}
            }
            match &r.ev {
                Ev::InnerEnter { req, serial, .. } if *req == id => {
                    atts.push((r.t, *serial, None));
                    handling = false;
                }
                Ev::InnerExit { req, serial, how, .. } if *req == id => {
                    if let Some(a) = atts.iter_mut().find(|a| a.1 == *serial) {
                        a.2 = Some((r.t, how.clone()));
                    }
                    let reconnectable = match how {
                        How::Err(c) => !cfg.predicate || *c == 1,
                        _ => false,
                    };
                    handling = reconnectable;
                    delays.push(None);
                    just_exited = true;
                }
                Ev::Listener { name, a, b } if name == "policy-delay" && just_exited && resolved.is_none() && !atts.is_empty() && atts.last().unwrap().2.is_some() => {
                    just_exited = false;
                    if let Some(d) = delays.last_mut() {
                        *d = Some(*b);
                    }
                    let retry_index = delays.len() as u64 - 1;
                    if *a != retry_index {
                        rep.violate(
                            "C16:policy-asked-for-wrong-attempt",
                            format!("r{id}: for retry {} (0-indexed, as interval functions are documented) the policy was asked for the delay of attempt {a}; the delay for attempt {retry_index} is never waited", retry_index),
                        );
                    }
                }
                Ev::Resolve { req, out } if *req == id => {
                    resolved = Some((r.t, out.clone()));
                    handling = false;
                }
                Ev::Listener { name, a, b } if *name == format!("state-after-call:{id}") => {
                    state_after = Some((*a, *b == 1));
                }
                Ev::Listener { name, a, .. } if name == "state-sample" && handling && resolved.is_none() && cfg.drivers == 1 => {
                    rep.count("state_samples_while_handling_failure", 1);
                    if *a == 0 {
                        rep.violate("C16:connected-while-reconnecting", format!("r{id}: published state is Connected at t={}us while a reconnectable failure is being handled", r.t));
                    }
                }
                Ev::ActorPanic { msg, .. } => rep.violate("C16:library-panic", msg.clone()),
                _ => {}
            }
            if resolved.is_some() && state_after.is_some() {
                break;
            }
        }
        if atts.is_empty() {
            continue;
        }
        let max = if cfg.defaults_layer { None } else { cfg.max_attempts };
        if let Some(m) = max {
            if atts.len() as u64 > m as u64 + 1 {
                rep.violate("C16:too-many-attempts", format!("r{id}: {} inner calls with max_attempts={m}", atts.len()));
            }
        }
        rep.max("max_inner_calls_one_request", atts.len() as u64);
        retries += atts.len() as u64 - 1;
        for k in 0..atts.len().saturating_sub(1) {
            let (et, how) = match &atts[k].2 {
                Some(x) => x.clone(),
                None => continue,
            };
            match how {
                How::Ok => rep.violate("C16:retry-after-success", format!("r{id}: attempt {} followed a success", k + 2)),
                How::Err(c) if cfg.predicate && c != 1 => rep.violate("C16:retry-after-non-connection-error", format!("r{id}: attempt {} followed an error of class {c} that the predicate rejects", k + 2)),
                _ => {}
            }
            let gap = atts[k + 1].0 - et;
            let need = if cfg.wrapped {
                delays.get(k).cloned().flatten()
            } else if matches!(cfg.pol, Pol::Jitter(..)) {
                None
            } else {
                // interval functions are documented as 0-indexed ("first retry is 0", and
                // delay_for_attempt(0) is the initial delay): retry k waits the delay for index k
                native.delay_for_attempt(k).map(|d| d.as_micros() as u64)
            };
            if matches!(cfg.pol, Pol::None) && !cfg.defaults_layer {
                rep.violate("C16:retry-without-policy-delay", format!("r{id}: retried although the policy is 'none' (no delay, no retry)"));
            }
            if let Some(d) = need {
                rep.count("delay_checks", 1);
                if gap < d {
                    rep.violate("C16:retry-too-early", format!("r{id}: retry {} started {gap}us after the failure, policy delay {d}us", k + 1));
                }
            } else if cfg.wrapped {
                rep.violate("C16:policy-not-consulted", format!("r{id}: retry {} happened without asking the policy for a delay", k + 1));
            }
        }
        // final outcome
        if let Some((_, out)) = &resolved {
            let last = atts.last().unwrap();
            match (&last.2, out) {
                (Some((_, How::Ok)), Outcome::Ok { serial, req_id, .. }) if *serial == last.1 && *req_id == id => {}
                (Some((_, How::Err(_))), Outcome::Inner { serial, .. }) if *serial == last.1 => other_path = true,
                (Some((_, How::Err(_))), Outcome::Layer { inner: Some((s, _)), .. }) if *s == last.1 => other_path = true,
                _ => rep.violate(
                    "C16:wrong-final-outcome",
                    format!("r{id}: caller saw {} but the last inner call (serial {}) ended {:?}; an Ok must be the first success, an error must wrap the last inner error", out.short(), last.1, last.2.as_ref().map(|x| &x.1)),
                ),
            }
            // a success anywhere must end the request
            if atts[..atts.len() - 1].iter().any(|a| matches!(&a.2, Some((_, How::Ok)))) {
                rep.violate("C16:continued-after-success", format!("r{id}: an earlier attempt succeeded but the layer went on"));
            }
            if let Some((s, was_ok)) = state_after {
                if was_ok && s != 0 {
                    rep.violate("C16:not-connected-after-success", format!("r{id}: call succeeded but the published state is {}", ["Connected", "Disconnected", "Reconnecting"][s as usize]));
                }
                // the request ended on a connection failure the layer handled (and nobody else can
                // have reconnected in the meantime): the published state cannot still say Connected
                let last_reconnectable = matches!(&last.2, Some((_, How::Err(c))) if !cfg.predicate || *c == 1);
                // (only when the layer gave up: with retry_on_reconnect(false) the layer reconnects
                // and then declines to re-issue the request, so Connected is right there)
                let gave_up = matches!(out, Outcome::Layer { kind, .. } if kind == "MaxAttemptsExceeded");
                if !was_ok && last_reconnectable && gave_up && cfg.drivers == 1 && s == 0 {
                    rep.violate("C16:connected-after-connection-failure", format!("r{id}: ended with {} after a connection failure, but the published state is still Connected", out.short()));
                }
            }
            if !cfg.retry_on_reconnect && !cfg.defaults_layer && atts.len() > 1 {
                rep.violate("C16:reissued-although-retry-on-reconnect-is-off", format!("r{id}: {} inner calls although retry_on_reconnect(false) was configured", atts.len()));
            }
        }
        let _ = script;
    }
    rep.count("retries", retries);
    rep.bucket(format!("{} max={:?} retry={} pred={} wrapped={} clients={}", format!("{:?}", cfg.pol).split('(').next().unwrap_or(""), cfg.max_attempts, cfg.retry_on_reconnect, cfg.predicate, cfg.wrapped, cfg.drivers));
    rep.nontrivial = retries >= 1 && other_path;
    rep
}
