//! C19: chaos injection is reproducible and bounded; injected errors skip the inner call.

use crate::actors::{boxed, do_call};
use crate::prng::{Fnv, Prng};
use crate::report::{Report, Tier};
use crate::sim::run_sim;
use crate::world::{Ev, Lat, Out, Outcome, PErr, Rec, Req, Step, World};
use serde_json::json;
use std::collections::HashMap;
use std::sync::Arc;
use std::time::Duration;
use tower::Layer;
use tower_resilience_chaos::ChaosLayer;

#[derive(Clone, Debug)]
pub struct Cfg {
    seed: u64,
    err_rate: f64,
    lat_rate: f64,
    min_ms: u64,
    max_ms: u64,
    /// builder order: error_rate().error_fn() or error_fn().error_rate()
    rate_first: bool,
    /// no error function at all (latency only / transparent)
    no_error_fn: bool,
    /// seed() is the last builder call instead of coming before error_rate()/error_fn()
    seed_last: bool,
    /// seed() between error_rate() and error_fn()
    seed_mid: bool,
    /// service B obtains `batch` call futures first (in request order) and then awaits them in
    /// that order: call order and first-poll order still agree with service A's sequential order
    batch: usize,
    /// the futures of a batch are awaited last-first: the decisions still belong to the requests in
    /// the order in which they were made (the order of `call`)
    reverse_await: bool,
    n: usize,
    inner_fail: Vec<bool>,
    /// the user's error function panics for this request index (only reached when the seed picks
    /// that request for error injection); the callers catch the panic and carry on
    bad: Option<usize>,
}

pub fn gen(rng: &mut Prng) -> Cfg {
    let rates = [0.0, 0.01, 0.5, 0.99, 1.0, 0.2];
    let bounds = [(0u64, 0u64), (1, 1), (5, 5), (1, 20), (10, 100), (20, 1), (0, 7), (100, 10), (1200, 1250), (1000, 2000), (2500, 10), (999, 1001), (60_000, 61_000)];
    let (min_ms, max_ms) = *rng.pick(&bounds);
    let n = rng.range(50, 300) as usize;
    let no_error_fn = rng.chance(0.15);
    Cfg {
        seed: rng.next(),
        err_rate: if no_error_fn { 0.0 } else { *rng.pick(&rates) },
        lat_rate: *rng.pick(&rates),
        min_ms,
        max_ms,
        rate_first: rng.chance(0.5),
        no_error_fn,
        seed_last: rng.chance(0.4),
        seed_mid: rng.chance(0.3),
        batch: if rng.chance(0.4) { rng.range(2, 4) as usize } else { 1 },
        reverse_await: rng.chance(0.3),
        n,
        inner_fail: (0..n).map(|_| rng.chance(0.2)).collect(),
        bad: if !no_error_fn && rng.chance(0.15) { Some(rng.below(n as u64 / 2) as usize) } else { None },
    }
}

const INJECTED: u8 = 77;

pub fn run(cfg: &Cfg, seed: u64) -> Arc<World> {
    let (w, _s, ()) = run_sim(seed, |sim| {
        let w = sim.w.clone();
        let cfgc = cfg.clone();
        let w2 = w.clone();
        let fut = {
            let bad = cfg.bad.map(|b| b as u64 + 1);
            let efn = move |r: &Req| {
                if Some(r.id % 1_000_000) == bad {
                    panic!("error_fn: scripted panic for request {}", r.id);
                }
                PErr { serial: r.id, req_id: r.id, class: INJECTED }
            };
            // awaits a call future; a panic of the user's error function counts as the injected error
            // it stands for, any other panic is the library's
            async fn settle<F: std::future::Future<Output = Result<crate::world::Resp, PErr>>>(w: &Arc<World>, id: u64, f: F) -> Outcome {
                let mut f = Box::pin(f);
                let r = std::future::poll_fn(|cx| match std::panic::catch_unwind(std::panic::AssertUnwindSafe(|| f.as_mut().poll(cx))) {
                    Ok(p) => p.map(Some),
                    Err(_) => std::task::Poll::Ready(None),
                })
                .await;
                match r {
                    Some(Ok(x)) => Outcome::ok(&x),
                    Some(Err(e)) => Outcome::inner(&e),
                    None => {
                        let msg = crate::sim::take_last_panic().unwrap_or_default();
                        if msg.contains("error_fn: scripted panic") {
                            std::mem::forget(f);
                            Outcome::inner(&PErr { serial: id, req_id: id, class: INJECTED })
                        } else {
                            std::mem::forget(f);
                            w.log(Ev::ActorPanic { req: id, msg: msg.clone() });
                            Outcome::layer(format!("panic: {msg}"))
                        }
                    }
                }
            }
            macro_rules! drive {
                ($layer:expr) => {{
                    // two services built separately from equally-seeded configuration
                    let mut a = $layer.layer(w.probe(1));
                    let mut b = $layer.layer(w.probe(2));
                    boxed(async move {
                        let map = |e: &PErr| Outcome::inner(e);
                        let mk = |i: usize, base: u64| {
                            let id = base + i as u64 + 1;
                            Req::new(id, 0, vec![Step { lat: Lat::Us(0), out: if cfgc.inner_fail[i] { Out::Err(1) } else { Out::Ok } }])
                        };
                        // service A: strictly sequential
                        for i in 0..cfgc.n {
                            let req = mk(i, 0);
                            let id = req.id;
                            w2.log(Ev::Arrive { req: id });
                            if cfgc.bad.is_none() {
                                do_call(&w2, &mut a, req, false, &map).await;
                            } else {
                                let _ = std::future::poll_fn(|cx| tower::Service::poll_ready(&mut a, cx)).await;
                                let f = tower::Service::call(&mut a, req);
                                w2.log(Ev::Issued { req: id });
                                w2.log(Ev::FirstPoll { req: id });
                                let o = settle(&w2, id, f).await;
                                w2.log(Ev::Resolve { req: id, out: o });
                            }
                        }
                        // service B: in batches (futures obtained in order, then awaited in order)
                        let mut i = 0;
                        while i < cfgc.n {
                            let k = cfgc.batch.min(cfgc.n - i);
                            let mut futs = vec![];
                            for j in i..i + k {
                                let req = mk(j, 1_000_000);
                                let id = req.id;
                                w2.log(Ev::Arrive { req: id });
                                let _ = std::future::poll_fn(|cx| tower::Service::poll_ready(&mut b, cx)).await;
                                futs.push((id, tower::Service::call(&mut b, req)));
                                w2.log(Ev::Issued { req: id });
                            }
                            if cfgc.reverse_await {
                                futs.reverse();
                            }
                            for (id, f) in futs {
                                w2.log(Ev::FirstPoll { req: id });
                                let o = settle(&w2, id, f).await;
                                w2.log(Ev::Resolve { req: id, out: o });
                            }
                            i += k;
                        }
                        w2.note("driver-done");
                    })
                }};
            }
            let base = ChaosLayer::builder().name("c19").latency_rate(cfg.lat_rate).min_latency(Duration::from_millis(cfg.min_ms)).max_latency(Duration::from_millis(cfg.max_ms));
            let base = if cfg.seed_last { base } else { base.seed(cfg.seed) };
            if cfg.no_error_fn {
                let layer = base.seed(cfg.seed).build();
                drive!(layer)
            } else if cfg.rate_first && cfg.seed_mid {
                let layer = base.error_rate(cfg.err_rate).seed(cfg.seed).error_fn(efn).build();
                drive!(layer)
            } else if cfg.rate_first {
                let b = base.error_rate(cfg.err_rate).error_fn(efn);
                let layer = if cfg.seed_last { b.seed(cfg.seed).build() } else { b.build() };
                drive!(layer)
            } else {
                let b = base.error_fn(efn).error_rate(cfg.err_rate);
                let layer = if cfg.seed_last { b.seed(cfg.seed).build() } else { b.build() };
                drive!(layer)
            }
        };
        let a = sim.actor(0, move || fut);
        sim.start_at(0, a);
        sim.horizon = (cfg.n as u64 * 2 + 10) * (cfg.min_ms.max(cfg.max_ms) + 1) * 1000 + 1_000_000;
        sim.p_spurious = 0.0;
        sim.poll_cap = 5_000_000;
    });
    w
}

pub fn scenario(sseed: u64, _tier: Tier) -> Report {
    let mut rng = Prng::new(sseed);
    let cfg = gen(&mut rng);
    let w = run(&cfg, rng.next());
    let log = w.take_log();
    let mut rep = judge(&cfg, &log);
    if !log.iter().any(|r| matches!(&r.ev, Ev::Note { what } if what == "driver-done")) && rep.violations.is_empty() {
        rep.inconclusive = Some("driver did not finish".into());
    }
    rep.case = json!({"cfg": format!("{:?}", Cfg { inner_fail: vec![], ..cfg.clone() })});
    rep.log = if rep.violations.is_empty() { log.into_iter().take(60).collect() } else { log };
    rep
}

/// decision observed for one request: Err(injected) / Ok(latency ms)
fn decisions(log: &[Rec]) -> HashMap<u64, (bool, u64, bool)> {
    let mut fp: HashMap<u64, u64> = HashMap::new();
    let mut enter: HashMap<u64, u64> = HashMap::new();
    let mut out: HashMap<u64, (bool, u64, bool)> = HashMap::new(); // injected?, latency us, entered inner?
    for r in log {
        match &r.ev {
            Ev::FirstPoll { req } => {
                fp.insert(*req, r.t);
            }
            Ev::InnerEnter { req, .. } => {
                enter.insert(*req, r.t);
            }
            Ev::Resolve { req, out: o } => {
                let injected = matches!(o, Outcome::Inner { class, .. } if *class == INJECTED);
                let lat = enter.get(req).map(|e| e - fp.get(req).copied().unwrap_or(0)).unwrap_or(0);
                out.insert(*req, (injected, lat, enter.contains_key(req)));
            }
            _ => {}
        }
    }
    out
}

pub fn judge(cfg: &Cfg, log: &[Rec]) -> Report {
    let mut rep = Report::default();
    for r in log {
        if let Ev::ActorPanic { msg, .. } = &r.ev {
            rep.violate("C19:library-panic", format!("{msg}; cfg {:?}", Cfg { inner_fail: vec![], ..cfg.clone() }));
        }
    }
    let d = decisions(log);
    let (lo, hi) = (cfg.min_ms.min(cfg.max_ms) * 1000, cfg.min_ms.max(cfg.max_ms) * 1000);
    let mut injected = 0u64;
    let mut delayed = 0u64;
    let mut passed = 0u64;
    let mut sig = Fnv::default();
    for i in 0..cfg.n {
        let (ia, ib) = (i as u64 + 1, 1_000_000 + i as u64 + 1);
        let (a, b) = match (d.get(&ia), d.get(&ib)) {
            (Some(a), Some(b)) => (*a, *b),
            _ => continue,
        };
        sig.add(a.0 as u64 * 1_000_003 + a.1);
        if (a.0, a.1) != (b.0, b.1) {
            rep.violate(
                "C19:not-reproducible",
                format!("request #{i}: two services built with seed {} decided differently: A = (error injected {}, latency {}us), B = (error injected {}, latency {}us)", cfg.seed, a.0, a.1, b.0, b.1),
            );
            break;
        }
        for (who, x) in [("A", a), ("B", b)] {
            if x.0 && x.2 {
                rep.violate("C19:injected-error-reached-inner", format!("request #{i} on {who}: an error was injected and the inner service was still called"));
            }
            if !x.0 && !x.2 {
                rep.violate("C19:lost-request", format!("request #{i} on {who}: no error was injected but the inner service was not called"));
            }
            if x.0 {
                injected += 1;
            } else if x.1 > 0 {
                delayed += 1;
                if x.1 < lo || x.1 > hi || x.1 % 1000 != 0 {
                    rep.violate("C19:latency-out-of-range", format!("request #{i} on {who}: injected latency {}us outside [{}ms, {}ms]", x.1, cfg.min_ms.min(cfg.max_ms), cfg.min_ms.max(cfg.max_ms)));
                }
            } else {
                passed += 1;
            }
            if cfg.err_rate == 0.0 && x.0 {
                rep.violate("C19:error-at-rate-0", format!("request #{i} on {who}: error injected with error rate 0"));
            }
            if cfg.err_rate == 1.0 && !x.0 {
                rep.violate("C19:success-at-rate-1", format!("request #{i} on {who}: passed through with error rate 1"));
            }
            if cfg.lat_rate == 0.0 && x.1 > 0 {
                rep.violate("C19:latency-at-rate-0", format!("request #{i} on {who}: {}us latency with latency rate 0", x.1));
            }
            if cfg.lat_rate == 1.0 && !x.0 && lo > 0 && x.1 == 0 {
                rep.violate("C19:no-latency-at-rate-1", format!("request #{i} on {who}: no latency with latency rate 1 and min {}ms", cfg.min_ms.min(cfg.max_ms)));
            }
        }
        if rep.violations.len() > 3 {
            break;
        }
    }
    // transparency at (0, 0): results are the inner service's own
    rep.count("requests", 2 * cfg.n as u64);
    rep.count("errors_injected", injected);
    rep.count("latencies_injected", delayed);
    rep.count("passed_through", passed);
    rep.bucket(format!("err={} lat={} bounds={}..{}ms", cfg.err_rate, cfg.lat_rate, cfg.min_ms, cfg.max_ms));
    rep.nontrivial = (injected > 0 || delayed > 0) && passed > 0;
    sig.add(cfg.seed);
    rep.sig = sig.0;
    rep
}

// ---------------------------------------------------------------------------------------
// native multi-thread stress: with a seed the *multiset* of decisions over N requests is a
// function of the seed alone, whichever thread's request draws first
// ---------------------------------------------------------------------------------------

#[derive(Clone)]
struct Count(Arc<std::sync::atomic::AtomicU64>);
impl tower::Service<Req> for Count {
    type Response = crate::world::Resp;
    type Error = PErr;
    type Future = std::future::Ready<Result<crate::world::Resp, PErr>>;
    fn poll_ready(&mut self, _: &mut std::task::Context<'_>) -> std::task::Poll<Result<(), PErr>> {
        std::task::Poll::Ready(Ok(()))
    }
    fn call(&mut self, r: Req) -> Self::Future {
        self.0.fetch_add(1, std::sync::atomic::Ordering::SeqCst);
        std::future::ready(Ok(crate::world::Resp { serial: 0, req_id: r.id, payload: r.payload, src: 0 }))
    }
}

/// (injected errors, inner calls, latency injections, sorted injected delays in ms)
type Tally = (u64, u64, u64, Vec<u64>);

fn stress_run(seed: u64, err_rate: f64, lat_rate: f64, bounds: (u64, u64), n: u64, tasks: u64, workers: usize) -> Option<Tally> {
    use std::sync::atomic::{AtomicU64, Ordering};
    use tower::ServiceExt;
    let inner_calls = Arc::new(AtomicU64::new(0));
    let delays = Arc::new(std::sync::Mutex::new(Vec::<u64>::new()));
    let d2 = delays.clone();
    let layer = ChaosLayer::builder()
        .error_rate(err_rate)
        .error_fn(|r: &Req| PErr { serial: r.id, req_id: r.id, class: INJECTED })
        .latency_rate(lat_rate)
        .min_latency(Duration::from_millis(bounds.0))
        .max_latency(Duration::from_millis(bounds.1))
        .seed(seed)
        .on_latency_injected(move |d| d2.lock().unwrap_or_else(|e| e.into_inner()).push(d.as_millis() as u64))
        .build();
    let svc = layer.layer(Count(inner_calls.clone()));
    let rt = if workers <= 1 {
        tokio::runtime::Builder::new_current_thread().enable_time().build().ok()?
    } else {
        tokio::runtime::Builder::new_multi_thread().worker_threads(workers).enable_time().build().ok()?
    };
    let errs = rt.block_on(async {
        tokio::time::timeout(Duration::from_secs(120), async {
            let mut hs = vec![];
            for t in 0..tasks {
                let svc = svc.clone();
                let (lo, hi) = (t * n / tasks, (t + 1) * n / tasks);
                hs.push(tokio::spawn(async move {
                    let mut e = 0u64;
                    for i in lo..hi {
                        let req = Req::new(i + 1, 0, vec![]);
                        if let Err(p) = svc.clone().oneshot(req).await {
                            if p.class == INJECTED {
                                e += 1;
                            }
                        }
                    }
                    e
                }));
            }
            let mut total = 0;
            for h in hs {
                total += h.await.unwrap_or(0);
            }
            total
        })
        .await
    });
    rt.shutdown_background();
    let errs = errs.ok()?;
    let mut ds = delays.lock().unwrap_or_else(|e| e.into_inner()).clone();
    ds.sort();
    Some((errs, inner_calls.load(Ordering::SeqCst), ds.len() as u64, ds))
}

pub fn stress(sseed: u64, n: u64) -> Report {
    let mut rng = Prng::new(sseed);
    let mut rep = Report::default();
    let seed = rng.next();
    let err_rate = *rng.pick(&[0.3, 0.5, 0.7, 0.0]);
    let lat_rate = *rng.pick(&[0.0, 0.5, 1.0]);
    let bounds = *rng.pick(&[(0u64, 0u64), (0, 2), (1, 1)]);
    let n = if lat_rate > 0.0 && bounds.1 > 0 { n / 10 } else { n };
    let workers = *rng.pick(&[4usize, 8, 16]);
    let tasks = *rng.pick(&[8u64, 16, 64]);
    let seq = stress_run(seed, err_rate, lat_rate, bounds, n, 1, 1);
    let par = stress_run(seed, err_rate, lat_rate, bounds, n, tasks, workers);
    let par2 = stress_run(seed, err_rate, lat_rate, bounds, n, tasks, workers);
    match (&seq, &par, &par2) {
        (Some(a), Some(b), Some(c)) => {
            for (name, x) in [("first", b), ("second", c)] {
                if a.0 != x.0 || a.1 != x.1 || a.2 != x.2 || a.3 != x.3 {
                    rep.violate(
                        "C19:stress:decisions-not-a-function-of-the-seed",
                        format!(
                            "seed {seed}, error rate {err_rate}, latency rate {lat_rate} in {bounds:?} ms, {n} requests: a sequential client saw {} injected errors / {} inner calls / {} latency injections; {tasks} tasks on {workers} worker threads ({name} run) saw {} / {} / {}{}",
                            a.0,
                            a.1,
                            a.2,
                            x.0,
                            x.1,
                            x.2,
                            if a.3 != x.3 && a.2 == x.2 { " (different delays)" } else { "" }
                        ),
                    );
                    break;
                }
            }
            if a.0 + a.1 != n {
                rep.violate("C19:stress:injected-error-and-inner-call", format!("{} injected errors + {} inner calls != {n} requests", a.0, a.1));
            }
            rep.count("requests_sequential", n);
            rep.count("requests_concurrent", 2 * n);
            rep.count("injected_errors", a.0);
            rep.count("latency_injections", a.2);
            rep.nontrivial = a.0 + a.2 > 0 && a.1 > 0;
        }
        _ => rep.inconclusive = Some("stress run did not finish within 120 s".into()),
    }
    rep.bucket(format!("err={err_rate} lat={lat_rate} workers={workers} tasks={tasks}"));
    let mut s = Fnv::default();
    s.add(seed);
    rep.sig = s.0;
    rep.case = json!({"engine": "stress", "seed": seed, "error_rate": err_rate, "latency_rate": lat_rate, "bounds_ms": [bounds.0, bounds.1], "requests": n, "tasks": tasks, "workers": workers, "tally_sequential": seq.as_ref().map(|t| (t.0, t.1, t.2))});
    rep
}
