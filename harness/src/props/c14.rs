//! C14: backoff delays are total, monotone and capped (dense sweeps of the real functions) and a
//! reconnect loop survives hours of outage.

use crate::actors::boxed;
use crate::prng::{Fnv, Prng};
use crate::report::{Report, Tier};
use crate::sim::{install_panic_hook, run_sim, take_last_panic, What};
use crate::world::{Ev, Lat, Out, Outcome, PErr, Req, Step};
use serde_json::json;
use std::panic::{catch_unwind, AssertUnwindSafe};
use std::time::Duration;
use tower::{Layer, Service};
use tower_resilience_reconnect::{ReconnectConfig, ReconnectLayer, ReconnectPolicy};
use tower_resilience_retry::{ExponentialBackoff, ExponentialRandomBackoff, IntervalFunction};

#[derive(Clone, Debug)]
pub struct Cfg {
    kind: &'static str,
    initial_ns: u128,
    mult: f64,
    max_ns: Option<u128>,
    factor: f64,
}

const DAY: u128 = 86_400_000_000_000;

fn grid() -> Vec<Cfg> {
    let initials: [u128; 7] = [0, 1_000, 1_000_000, 100_000_000, 1_000_000_000, DAY, 50_000_000];
    let mults = [1.0, 1.5, 2.0, 3.0, 10.0];
    let mut v = vec![];
    for &i in &initials {
        for &m in &mults {
            let maxes: [Option<u128>; 6] = [None, Some(i / 2), Some(5_000_000_000), Some(3_600_000_000_000), Some(3650 * DAY), Some(i)];
            for &mx in &maxes {
                v.push(Cfg { kind: "exp", initial_ns: i, mult: m, max_ns: mx, factor: 0.0 });
                v.push(Cfg { kind: "reconnect-custom-exp", initial_ns: i, mult: m, max_ns: mx, factor: 0.0 });
                for &f in &[0.0, 0.1, 0.5, 1.0] {
                    v.push(Cfg { kind: "exp-random", initial_ns: i, mult: m, max_ns: mx, factor: f });
                }
            }
        }
        // ReconnectPolicy constructors (multiplier fixed at 2, max mandatory)
        for &mx in &[i / 2, 5_000_000_000, 3_600_000_000_000, 3650 * DAY] {
            v.push(Cfg { kind: "reconnect-exp", initial_ns: i, mult: 2.0, max_ns: Some(mx), factor: 0.0 });
            for &f in &[0.0, 0.5, 1.0] {
                v.push(Cfg { kind: "reconnect-exp-random", initial_ns: i, mult: 2.0, max_ns: Some(mx), factor: f });
            }
        }
    }
    v.push(Cfg { kind: "reconnect-default", initial_ns: 100_000_000, mult: 2.0, max_ns: Some(5_000_000_000), factor: 0.0 });
    v.push(Cfg { kind: "retry-default-exp", initial_ns: 100_000_000, mult: 2.0, max_ns: None, factor: 0.0 });
    v
}

fn dur(ns: u128) -> Duration {
    Duration::new((ns / 1_000_000_000) as u64, (ns % 1_000_000_000) as u32)
}

fn make(c: &Cfg) -> Box<dyn Fn(usize) -> Option<Duration> + Send + Sync> {
    match c.kind {
        "exp" | "retry-default-exp" => {
            let mut b = ExponentialBackoff::new(dur(c.initial_ns));
            if c.kind == "exp" {
                b = b.multiplier(c.mult);
            }
            if let Some(m) = c.max_ns {
                b = b.max_interval(dur(m));
            }
            Box::new(move |a| Some(b.next_interval(a)))
        }
        "exp-random" => {
            let mut b = ExponentialRandomBackoff::new(dur(c.initial_ns), c.factor).multiplier(c.mult);
            if let Some(m) = c.max_ns {
                b = b.max_interval(dur(m));
            }
            Box::new(move |a| Some(b.next_interval(a)))
        }
        "reconnect-exp" => {
            let p = ReconnectPolicy::exponential(dur(c.initial_ns), dur(c.max_ns.unwrap()));
            Box::new(move |a| p.delay_for_attempt(a))
        }
        "reconnect-exp-random" => {
            let p = ReconnectPolicy::exponential_random(dur(c.initial_ns), dur(c.max_ns.unwrap()), c.factor);
            Box::new(move |a| p.delay_for_attempt(a))
        }
        "reconnect-custom-exp" => {
            // the same backoff handed to the reconnect layer as a custom policy
            let b = ExponentialBackoff::new(dur(c.initial_ns)).multiplier(c.mult);
            let b = if let Some(m) = c.max_ns { b.max_interval(dur(m)) } else { b };
            let p = ReconnectPolicy::Custom(std::sync::Arc::new(b));
            Box::new(move |a| p.delay_for_attempt(a))
        }
        _ => {
            let p = ReconnectPolicy::default();
            Box::new(move |a| p.delay_for_attempt(a))
        }
    }
}

fn attempts(tier: Tier, rng: &mut Prng) -> Vec<usize> {
    let dense = tier.pick(1500, 10_000) as usize;
    let mut v: Vec<usize> = (0..=dense).collect();
    for k in 0..usize::BITS {
        let p = 1usize << k;
        for x in [p.wrapping_sub(1), p, p.wrapping_add(1)] {
            v.push(x);
        }
    }
    v.push(usize::MAX);
    v.push(usize::MAX - 1);
    v.push(i32::MAX as usize);
    v.push(i32::MAX as usize + 1);
    v.push(u32::MAX as usize);
    v.push(u32::MAX as usize + 1);
    for _ in 0..tier.pick(50, 2000) {
        v.push(rng.next() as usize >> rng.below(60));
    }
    v.sort();
    v.dedup();
    v
}

pub fn scenario(sseed: u64, tier: Tier) -> Report {
    install_panic_hook();
    let mut rng = Prng::new(sseed);
    let g = grid();
    // one configuration per scenario; seeds walk the grid first, then draw random configurations
    let idx = (sseed % 1_000_003) as usize;
    let cfg = if rng.chance(0.5) {
        g[idx % g.len()].clone()
    } else {
        let initial = *rng.pick(&[0u128, 1, 999, 1_000, 1_000_000, 33_000_000, 100_000_000, 1_000_000_000, DAY, 7 * DAY]);
        // multipliers a hair above 1 keep initial x multiplier^attempt below any cap for billions of
        // attempts: the only inputs for which attempt numbers beyond i32::MAX still matter
        let mult = if rng.chance(0.2) { 1.0 + 10f64.powi(-(rng.range(6, 11) as i32)) } else { 1.0 + rng.below(901) as f64 / 100.0 };
        let max = match rng.below(4) {
            0 => None,
            1 => Some(initial / 2),
            2 => Some(initial.saturating_mul(rng.range(1, 1000) as u128)),
            _ => Some(rng.below(3650) as u128 * DAY + rng.below(1_000_000_000) as u128),
        };
        let kind = *rng.pick(&["exp", "exp-random", "reconnect-exp", "reconnect-exp-random", "reconnect-custom-exp"]);
        Cfg { kind, initial_ns: initial, mult: if kind.starts_with("reconnect-exp") { 2.0 } else { mult }, max_ns: if kind.starts_with("reconnect-exp") { Some(max.unwrap_or(5_000_000_000)) } else { max }, factor: rng.below(101) as f64 / 100.0 }
    };
    let mut rep = Report::default();
    let f = make(&cfg);
    let jitter = cfg.kind.ends_with("random");
    let init_s = cfg.initial_ns as f64 / 1e9;
    let cap_s = cfg.max_ns.map(|m| m as f64 / 1e9);
    let mut prev: Option<(usize, Duration)> = None;
    let mut points = 0u64;
    let mut capped_points = 0u64;
    let mut big_attempts = 0u64;
    let atts = attempts(tier, &mut rng);
    for &a in &atts {
        points += 1;
        let r = catch_unwind(AssertUnwindSafe(|| f(a)));
        let d = match r {
            Ok(Some(d)) => d,
            Ok(None) => continue,
            Err(_) => {
                let msg = take_last_panic().unwrap_or_default();
                rep.violate(format!("C14:{}:panic", cfg.kind), format!("delay for attempt {a} panicked ({msg}); cfg {cfg:?}"));
                break;
            }
        };
        if a > 64 {
            big_attempts += 1;
        }
        // reference value initial * mult^a in f64
        let exp = if a > i32::MAX as usize { cfg.mult.powf(a as f64) } else { cfg.mult.powi(a as i32) };
        let exp = if cfg.mult == 1.0 { 1.0 } else { exp };
        let raw = init_s * exp;
        let raw = if cfg.initial_ns == 0 { 0.0 } else { raw };
        let base = match cap_s {
            Some(c) if !(raw < c) => {
                capped_points += 1;
                c
            }
            _ => raw,
        };
        let ds = d.as_secs_f64();
        // powi/powf by repeated squaring: the relative error grows linearly with the exponent (it
        // only matters for multipliers so close to 1 that huge exponents stay finite)
        let rel = 1e-9 + (a as f64) * 4e-16;
        let tol = |x: f64| x.abs() * rel + 2e-9;
        if !jitter {
            if let Some(c) = cap_s {
                if ds > c + tol(c) {
                    rep.violate(format!("C14:{}:above-max", cfg.kind), format!("attempt {a}: delay {ds}s exceeds max_interval {c}s; cfg {cfg:?}"));
                }
            }
            if base.is_finite() && base < Duration::MAX.as_secs_f64() * 0.99 {
                if (ds - base).abs() > tol(base) {
                    rep.violate(format!("C14:{}:wrong-value", cfg.kind), format!("attempt {a}: delay {ds}s, expected initial x multiplier^attempt (capped) = {base}s; cfg {cfg:?}"));
                }
            }
            if let Some((pa, pd)) = prev {
                if d < pd && (pd.as_secs_f64() - ds) > tol(ds) {
                    rep.violate(format!("C14:{}:not-monotone", cfg.kind), format!("delay decreased from {:?} at attempt {pa} to {:?} at attempt {a}; cfg {cfg:?}", pd, d));
                }
            }
            prev = Some((a, d));
        } else if base.is_finite() && base < Duration::MAX.as_secs_f64() * 0.49 {
            let fct = cfg.factor.clamp(0.0, 1.0);
            let (lo, hi) = (base * (1.0 - fct), base * (1.0 + fct));
            if ds < lo - tol(lo) || ds > hi + tol(hi) {
                rep.violate(format!("C14:{}:jitter-out-of-range", cfg.kind), format!("attempt {a}: delay {ds}s outside [{lo}, {hi}] (base {base}s, factor {fct}); cfg {cfg:?}"));
            }
        }
        if rep.violations.len() >= 3 {
            break;
        }
    }
    rep.count("points", points);
    rep.count("points_at_or_above_cap", capped_points);
    rep.count("points_attempt_gt_64", big_attempts);
    rep.bucket(cfg.kind.to_string());
    rep.nontrivial = capped_points > 0 || big_attempts > 0;
    let mut s = Fnv::default();
    s.add_str(&format!("{cfg:?}"));
    rep.sig = s.0;
    rep.case = json!({"cfg": format!("{cfg:?}"), "points": points, "largest_attempt": atts.last()});
    rep
}

/// End-to-end: a reconnect layer against an always-failing backend over hours of virtual time.
pub fn outage(sseed: u64, _tier: Tier) -> Report {
    let mut rng = Prng::new(sseed);
    let which = rng.below(4);
    let hours = *rng.pick(&[1u64, 6, 48]);
    let mut rep = Report::default();
    let (w, stats, ()) = run_sim(rng.next(), |sim| {
        let w = sim.w.clone();
        // hours of outage against a dead backend: a request is legitimately re-issued very often
        w.runaway_cap.store(u64::MAX, std::sync::atomic::Ordering::Relaxed);
        let layer = match which {
            0 => ReconnectLayer::with_defaults(),
            1 => ReconnectLayer::new(ReconnectConfig::builder().policy(ReconnectPolicy::exponential(Duration::from_millis(100), Duration::from_secs(5))).unlimited_attempts().build()),
            2 => ReconnectLayer::new(ReconnectConfig::builder().policy(ReconnectPolicy::exponential_random(Duration::from_millis(50), Duration::from_secs(2), 0.5)).unlimited_attempts().build()),
            _ => ReconnectLayer::new(ReconnectConfig::builder().policy(ReconnectPolicy::exponential(Duration::from_millis(1), Duration::from_millis(500))).unlimited_attempts().build()),
        };
        let mut svc = layer.layer(w.probe(1));
        let w2 = w.clone();
        let a = sim.actor(1, move || {
            boxed(async move {
                let req = Req::new(1, 0, vec![Step { lat: Lat::Us(0), out: Out::Err(1) }]);
                let _ = std::future::poll_fn(|cx| svc.poll_ready(cx)).await;
                let r = svc.call(req).await;
                w2.log(Ev::Resolve { req: 1, out: match r { Ok(x) => Outcome::ok(&x), Err(_) => Outcome::layer("error") } });
            })
        });
        sim.start_at(0, a);
        let end = hours * 3_600_000_000;
        sim.at(end, What::Drop(a));
        sim.horizon = end + 1_000_000;
        sim.poll_cap = 5_000_000;
        sim.p_spurious = 0.0;
    });
    let log = w.take_log();
    let attempts = log.iter().filter(|r| matches!(r.ev, Ev::InnerEnter { .. })).count() as u64;
    for r in &log {
        if let Ev::ActorPanic { msg, .. } = &r.ev {
            rep.violate("C14:reconnect-outage:panic", format!("reconnect loop panicked after {attempts} attempts at t={}s of outage: {msg}", r.t / 1_000_000));
        }
    }
    if stats.hit_poll_cap {
        rep.inconclusive = Some("poll cap".into());
    }
    rep.count("reconnect_attempts_during_outage", attempts);
    rep.max("max_attempts_in_one_outage", attempts);
    rep.nontrivial = attempts > 64;
    rep.sig = crate::prng::mix(which, hours);
    rep.bucket(format!("outage policy#{which} {hours}h"));
    rep.case = json!({"engine":"sim-outage","policy":which,"hours":hours,"attempts":attempts});
    let _: &dyn Fn(&PErr) = &|_| {};
    rep
}
