//! C12: hedge – bounded attempts, delays between attempts, first success wins, all-failed only
//! when every attempt was started and failed.

use crate::actors::caller;
use crate::prng::{Fnv, Prng};
use crate::report::{Report, Tier};
use crate::sim::{run_sim, What};
use crate::world::{Ev, How, Lat, Out, Outcome, PErr, Rec, Req, Step, World};
use serde_json::json;
use std::collections::HashMap;
use std::sync::Arc;
use std::time::Duration;
use tower::Layer;
use tower_resilience_hedge::{HedgeError, HedgeLayer};

#[derive(Clone, Debug)]
enum Delay {
    Default,
    Fixed(u64),
    NoDelay,
    Table(Vec<u64>),
}

#[derive(Clone, Debug)]
pub struct Cfg {
    max: usize,
    delay: Delay,
    /// per request: arrival, per-attempt (latency, ok?)
    reqs: Vec<(u64, Vec<(Lat, bool)>)>,
    /// (request index, from, until): the caller is not polled in this window (late polls)
    stall: Option<(usize, u64, u64)>,
    /// one-slot backend: a hedge clone polled while another attempt is in flight fails readiness
    busy_fails: bool,
    /// every instance of the backend needs this long to become ready after it was cloned (0 = ready at once)
    warm_us: u64,
    /// the backend is not ready (for anybody) during [from, to) us of virtual time
    blackout: Option<(u64, u64)>,
}

const NEVER: u64 = u64::MAX;

fn delay_for(cfg: &Cfg, attempt: usize) -> u64 {
    match &cfg.delay {
        Delay::Default => 1_000_000,
        Delay::Fixed(d) => *d,
        Delay::NoDelay => 0,
        Delay::Table(t) => t[attempt.min(t.len() - 1)],
    }
}

pub fn gen(rng: &mut Prng) -> Cfg {
    // rarely a flood: well over a thousand parallel attempts whose results all arrive while the
    // caller is not being polled (more than any bounded result buffer holds); the successes are the
    // last to report
    if rng.chance(0.004) {
        let max = *rng.pick(&[1100usize, 1300]);
        let n_ok = rng.range(1, 150) as usize;
        let script = (0..max).map(|k| (Lat::Us(2000), k >= max - n_ok)).collect();
        return Cfg { max, delay: Delay::NoDelay, reqs: vec![(0, script)], stall: Some((0, 1000, *rng.pick(&[4000u64, 9000]))), busy_fails: false, warm_us: 0, blackout: None };
    }
    // now and then a wide fan-out: more attempts than any small internal buffer would hold
    let wide = rng.chance(0.05);
    // "as many hedges as it takes": an extreme but valid attempt limit (one of the first few attempts succeeds)
    let huge = !wide && rng.chance(0.02);
    let max = if huge { *rng.pick(&[usize::MAX, usize::MAX >> 3, (usize::MAX >> 3) + 1]) } else if wide { rng.range(17, 24) as usize } else { rng.range(1, 4) as usize };
    let delay_any = match if wide { 5 + rng.below(2) * 4 - rng.below(2) * 4 } else { rng.below(10) } {
        0 => Delay::Default,
        1..=4 => Delay::Fixed(*rng.pick(&[0u64, 10_000, 50_000])),
        5..=6 => Delay::NoDelay,
        _ => {
            let mut t: Vec<u64> = (0..5).map(|_| *rng.pick(&[0u64, 5000, 10_000, 20_000])).collect();
            if rng.chance(0.15) {
                // "effectively never" for one of the later hedges
                let k = rng.range(1, 4) as usize;
                t[k] = NEVER;
            }
            Delay::Table(t)
        }
    };
    // an unlimited number of attempts only makes sense with a real delay between them (in parallel mode the
    // layer would start them all at once)
    let delay = if huge { Delay::Fixed(*rng.pick(&[10_000u64, 50_000])) } else { delay_any };
    let d = match &delay {
        Delay::Default => 1_000_000,
        Delay::Fixed(d) if *d > 0 => *d,
        Delay::Table(t) => if t[1] == NEVER { 10_000 } else { t[1].max(5000) },
        _ => 10_000,
    };
    let busy_fails = rng.chance(0.08);
    let n = if busy_fails { 1 } else { rng.range(1, 3) };
    let fail_bias = *rng.pick(&[0.3, 0.6, 0.9]);
    let mut reqs = vec![];
    for _ in 0..n {
        let script = (0..max.min(6))
            .map(|_| {
                let lat = match rng.below(9) {
                    0 => Lat::Us(0),
                    1 => Lat::Us(d - 1000),
                    2 => Lat::Us(d),
                    3 => Lat::Us(d + 1000),
                    4 => Lat::Us(3 * d),
                    5 => Lat::Us(10 * d),
                    6 => Lat::Never,
                    7 => Lat::Us(2 * d),
                    _ => Lat::Us(d / 2),
                };
                (lat, !rng.chance(fail_bias))
            })
            .collect::<Vec<_>>();
        let script = if huge {
            // fail fast until attempt k, which succeeds; the probe repeats the last step
            let k = rng.range(0, 3) as usize;
            (0..=k).map(|j| (Lat::Us(if j == k { d / 2 } else { 0 }), j == k)).collect()
        } else if wide {
            // a burst of immediate results, the one success (if any) among the late ones
            let ok_at = if rng.chance(0.8) { Some(max - 1 - rng.below(3) as usize) } else { None };
            (0..max).map(|k| (if rng.chance(0.8) { Lat::Us(0) } else { Lat::Us(d) }, Some(k) == ok_at)).collect()
        } else {
            script
        };
        reqs.push((rng.below(3) * 3000, script));
    }
    let stall = if rng.chance(0.3) {
        // whole milliseconds: director events ride on tokio timers
        let ms = |x: u64| (x / 1000).max(1) * 1000;
        let from = ms(rng.below(4) * d / 2);
        Some((rng.below(n) as usize, from, from + ms(*rng.pick(&[d / 2, d, 2 * d + 1000, 3 * d]))))
    } else {
        None
    };
    let warm_us = if !busy_fails && !matches!(delay, Delay::NoDelay) && rng.chance(0.12) { *rng.pick(&[1000u64, 3000, 7000, 20_000]) } else { 0 };
    let blackout = if !busy_fails && warm_us == 0 && !matches!(delay, Delay::NoDelay) && !huge && rng.chance(0.12) {
        let from = *rng.pick(&[1000u64, d / 2 / 1000 * 1000 + 1000, d + 1000]);
        Some((from, from + *rng.pick(&[d, 2 * d + 1000, 4 * d])))
    } else {
        None
    };
    Cfg { max, delay, reqs, stall, busy_fails, warm_us, blackout }
}

fn map_err(e: &HedgeError<PErr>) -> Outcome {
    match e {
        HedgeError::Inner(p) => Outcome::inner(p),
        HedgeError::AllAttemptsFailed(p) => Outcome::layer_with("AllAttemptsFailed", p),
    }
}

pub fn run(cfg: &Cfg, seed: u64) -> (Arc<World>, crate::sim::SimStats) {
    let (w, stats, ()) = run_sim(seed, |sim| {
        let w = sim.w.clone();
        let mut b = HedgeLayer::builder().max_hedged_attempts(cfg.max);
        b = match &cfg.delay {
            Delay::Default => b,
            Delay::Fixed(d) => b.delay(Duration::from_micros(*d)),
            Delay::NoDelay => b.no_delay(),
            Delay::Table(t) => {
                let t = t.clone();
                b.delay_fn(move |a| {
                    let d = t[a.min(t.len() - 1)];
                    if d == NEVER { Duration::MAX } else { Duration::from_micros(d) }
                })
            }
        };
        let probe = if cfg.busy_fails {
            w.probe(1).with_ready(crate::world::ReadyScript::FailWhileBusy(5))
        } else if cfg.warm_us > 0 {
            w.probe(1).with_ready(crate::world::ReadyScript::WarmUp(cfg.warm_us))
        } else if let Some((from, to)) = cfg.blackout {
            w.probe(1).with_ready(crate::world::ReadyScript::Blackout(from, to))
        } else {
            w.probe(1)
        };
        let svc = b.build().layer(probe);
        let mut end = 0u64;
        for (i, (arrive, script)) in cfg.reqs.iter().enumerate() {
            let steps: Vec<Step> = script.iter().map(|(l, ok)| Step { lat: *l, out: if *ok { Out::Ok } else { Out::Err(1) } }).collect();
            let req = Req::new(i as u64 + 1, 0, steps);
            let a = sim.actor(req.id, caller(w.clone(), svc.clone(), req, false, map_err));
            sim.start_at(*arrive, a);
            if let Some((ri, from, until)) = cfg.stall {
                if ri == i {
                    sim.at(*arrive + from, What::Suspend(a));
                    sim.at(*arrive + until, What::Resume(a));
                    end = end.max(*arrive + until);
                }
            }
            let mut t = *arrive;
            for (k, (l, _)) in script.iter().enumerate() {
                if delay_for(cfg, k) == NEVER {
                    break;
                }
                t += delay_for(cfg, k);
                if let Lat::Us(n) = l {
                    end = end.max(t + n);
                }
            }
            end = end.max(t);
        }
        // requests whose attempts never complete are cancelled once nothing can happen any more
        for a in 0..sim.n_actors() {
            sim.at(end + 5000, What::Drop(a));
        }
        sim.horizon = end + 1_000_000;
        if sim.p_yield == 0.0 {
            sim.p_yield = 0.1;
        }
    });
    (w, stats)
}

pub fn scenario(sseed: u64, _tier: Tier) -> Report {
    let mut rng = Prng::new(sseed);
    let cfg = gen(&mut rng);
    let (w, stats) = run(&cfg, rng.next());
    let log = w.take_log();
    let mut rep = judge(&cfg, &log);
    let mut sig = Fnv::default();
    for r in &log {
        match &r.ev {
            Ev::InnerEnter { req, attempt, .. } => {
                sig.add(*req * 8 + *attempt as u64);
                sig.add(r.t);
            }
            Ev::Resolve { req, out } => {
                sig.add(*req);
                sig.add(r.t);
                sig.add_str(&out.short());
            }
            _ => {}
        }
    }
    sig.add_str(&format!("{:?}{}", cfg.delay, cfg.max));
    rep.sig = sig.0;
    rep.count("polls", stats.polls);
    rep.count("events", log.len() as u64);
    if stats.hit_poll_cap || stats.hit_horizon {
        rep.inconclusive = Some(format!("poll_cap={} horizon={}", stats.hit_poll_cap, stats.hit_horizon));
    }
    rep.case = json!({"cfg": format!("{cfg:?}")});
    rep.log = log;
    rep
}

pub fn judge(cfg: &Cfg, log: &[Rec]) -> Report {
    let mut rep = Report::default();
    let mode = match &cfg.delay {
        Delay::NoDelay => "parallel",
        Delay::Table(_) => "table",
        _ => "fixed",
    };
    struct A {
        start: u64,
        serial: u64,
        end: Option<(u64, How)>,
    }
    let mut atts: HashMap<u64, Vec<A>> = HashMap::new();
    let mut first_poll: HashMap<u64, u64> = HashMap::new();
    let mut resolved: HashMap<u64, (u64, Outcome)> = HashMap::new();
    for r in log {
        match &r.ev {
            Ev::FirstPoll { req } => {
                first_poll.insert(*req, r.t);
            }
            Ev::InnerEnter { req, serial, .. } => atts.entry(*req).or_default().push(A { start: r.t, serial: *serial, end: None }),
            // one-slot backend: a clone that cannot become ready is an attempt that was started and
            // failed at that instant (single request per scenario in this mode)
            Ev::InnerReady { res: 2, .. } if cfg.busy_fails => atts.entry(1).or_default().push(A { start: r.t, serial: u64::MAX, end: Some((r.t, How::Err(5))) }),
            Ev::InnerExit { req, serial, how, .. } => {
                if let Some(a) = atts.get_mut(req).and_then(|v| v.iter_mut().find(|a| a.serial == *serial)) {
                    a.end = Some((r.t, how.clone()));
                }
            }
            Ev::Resolve { req, out } => {
                resolved.insert(*req, (r.t, out.clone()));
            }
            Ev::ActorPanic { req, msg } => rep.violate(format!("C12:{mode}:library-panic"), format!("r{req}: {msg}")),
            _ => {}
        }
    }
    let mut multi = false;
    let mut any_fail = false;
    for i in 0..cfg.reqs.len() {
        let id = i as u64 + 1;
        let v = match atts.get(&id) {
            Some(v) => v,
            None => continue,
        };
        let fp = first_poll.get(&id).copied().unwrap_or(0);
        if v.len() > cfg.max {
            rep.violate(format!("C12:{mode}:too-many-attempts"), format!("r{id}: {} inner calls with max_hedged_attempts={}", v.len(), cfg.max));
        }
        if v.len() >= 2 {
            multi = true;
        }
        if v[0].start != fp {
            rep.violate(format!("C12:{mode}:primary-not-started-at-once"), format!("r{id}: first poll t={fp}us, primary started t={}us", v[0].start));
        }
        for k in 1..v.len() {
            let d = delay_for(cfg, k);
            let earliest = if matches!(cfg.delay, Delay::NoDelay) { fp } else { v[k - 1].start.saturating_add(d) };
            if v[k].start < earliest {
                rep.violate(
                    format!("C12:{mode}:hedge-started-too-early"),
                    format!("r{id}: attempt {k} started t={}us, previous attempt started t={}us, configured delay for attempt {k} = {d}us", v[k].start, v[k - 1].start),
                );
            }
            if matches!(cfg.delay, Delay::NoDelay) && v[k].start != fp {
                rep.violate(format!("C12:{mode}:parallel-attempt-late"), format!("r{id}: parallel mode, attempt {k} started t={}us, first poll t={fp}us", v[k].start));
            }
        }
        // successes among started attempts, as observed
        let succ: Vec<(u64, u64)> = v.iter().filter_map(|a| match &a.end { Some((t, How::Ok)) => Some((*t, a.serial)), _ => None }).collect();
        let (rt, out) = match resolved.get(&id) {
            Some(x) => x.clone(),
            None => {
                if let Some(s) = succ.iter().min() {
                    rep.violate(format!("C12:{mode}:success-never-delivered"), format!("r{id}: an attempt succeeded at t={}us but the call never resolved", s.0));
                }
                continue;
            }
        };
        let first_succ = succ.iter().map(|s| s.0).min();
        if v.iter().any(|a| matches!(&a.end, Some((_, How::Err(_))))) {
            any_fail = true;
        }
        // a caller that is not being polled cannot notice the success before it is polled again
        let stall_abs = cfg.stall.filter(|st| st.0 == i).map(|st| (cfg.reqs[i].0 + st.1, cfg.reqs[i].0 + st.2));
        let noticed = |t: u64| match stall_abs {
            Some((s, e)) if t >= s && t < e => e,
            _ => t,
        };
        match &out {
            Outcome::Ok { serial, req_id, .. } => {
                let ok = first_succ.map(noticed) == Some(rt) && succ.iter().any(|s| Some(s.0) == first_succ && s.1 == *serial) && *req_id == id;
                if !ok {
                    rep.violate(
                        format!("C12:{mode}:not-first-success"),
                        format!("r{id}: resolved Ok#{serial} at t={rt}us; successes of started attempts (instant, serial): {succ:?}"),
                    );
                }
            }
            Outcome::Layer { kind, inner } if kind == "AllAttemptsFailed" => {
                let failed_by: usize = v.iter().filter(|a| matches!(&a.end, Some((t, How::Err(_))) if *t <= rt)).count();
                if v.len() < cfg.max || failed_by < v.len() {
                    let states: Vec<String> = v.iter().map(|a| format!("start={} end={:?}", a.start, a.end)).collect();
                    rep.violate(
                        format!("C12:{mode}:premature-all-failed"),
                        format!("r{id}: AllAttemptsFailed at t={rt}us but only {} of {} attempts had been started and {} had failed: {:?}", v.len(), cfg.max, failed_by, states),
                    );
                }
                if let Some((s, _)) = inner {
                    if !cfg.busy_fails && !v.iter().any(|a| a.serial == *s) {
                        rep.violate(format!("C12:{mode}:foreign-error"), format!("r{id}: AllAttemptsFailed carries error #{s} which is none of its attempts"));
                    }
                }
                if let Some(fs) = first_succ {
                    if fs <= rt {
                        rep.violate(format!("C12:{mode}:failed-despite-success"), format!("r{id}: AllAttemptsFailed at t={rt}us although an attempt succeeded at t={fs}us"));
                    }
                }
            }
            other => rep.violate(format!("C12:{mode}:unexpected-outcome"), format!("r{id}: resolved with {}", other.short())),
        }
    }
    rep.bucket(format!("{mode} max={}{}", cfg.max, if cfg.busy_fails { " one-slot-backend" } else if cfg.warm_us > 0 { " warm-up-backend" } else if cfg.blackout.is_some() { " blackout" } else { "" }));
    rep.nontrivial = multi && any_fail;
    rep
}

// ---------------------------------------------------------------------------------------
// Engine "stress-loaded-executor": the real clock and an executor that has other work to do.
//
// Under the paused clock a spawned task runs at the virtual instant at which it was spawned, so
// "spawned" and "started" cannot be told apart there. Here the hedge layer runs on a real
// current-thread runtime on which (a) another task that is queued ahead spends a few milliseconds
// in one poll, or (b) hundreds of hedged calls are made at once, so that a spawned attempt reaches
// the backend noticeably later than it was spawned. The backend records the real instant of every
// `call()`. Rule (time-independent in the sense that load can only make it *easier* to satisfy):
// attempt k+1 of a request reaches the backend no earlier than the configured delay after attempt
// k reached it. tokio timers never fire early and a current-thread runtime arms the next delay only
// after the poll in which the previous attempt called the backend has returned, so a correct layer
// cannot be caught by this rule however loaded the machine is.
#[derive(Clone)]
struct Stamping {
    starts: Arc<std::sync::Mutex<HashMap<u64, Vec<std::time::Instant>>>>,
    lat: Duration,
}

impl tower::Service<u64> for Stamping {
    type Response = u64;
    type Error = String;
    type Future = std::pin::Pin<Box<dyn std::future::Future<Output = Result<u64, String>> + Send>>;
    fn poll_ready(&mut self, _cx: &mut std::task::Context<'_>) -> std::task::Poll<Result<(), String>> {
        std::task::Poll::Ready(Ok(()))
    }
    fn call(&mut self, req: u64) -> Self::Future {
        self.starts.lock().unwrap_or_else(|e| e.into_inner()).entry(req).or_default().push(std::time::Instant::now());
        let lat = self.lat;
        Box::pin(async move {
            tokio::time::sleep(lat).await;
            Ok(req)
        })
    }
}

pub fn loaded_executor(sseed: u64) -> Report {
    use tower::{Service, ServiceExt};
    let mut rng = Prng::new(sseed);
    let mut rep = Report::default();
    let d_ms = *rng.pick(&[20u64, 40]);
    let max = rng.range(2, 3) as usize;
    let burst = rng.chance(0.3);
    let hog_ms = *rng.pick(&[4u64, 10, 15]);
    let n_calls = if burst { *rng.pick(&[300u64, 800]) } else { rng.range(1, 3) };
    let table = rng.chance(0.3);
    let rt = match tokio::runtime::Builder::new_current_thread().enable_time().build() {
        Ok(rt) => rt,
        Err(e) => {
            rep.inconclusive = Some(format!("cannot build a runtime: {e}"));
            return rep;
        }
    };
    let starts: Arc<std::sync::Mutex<HashMap<u64, Vec<std::time::Instant>>>> = Arc::new(std::sync::Mutex::new(HashMap::new()));
    let inner = Stamping { starts: starts.clone(), lat: Duration::from_millis(d_ms * (max as u64 + 1)) };
    let b = HedgeLayer::builder().max_hedged_attempts(max);
    let d = Duration::from_millis(d_ms);
    let layer = if table { b.delay_fn(move |_a| d).build() } else { b.delay(d).build() };
    let svc = layer.layer(inner);
    let t0 = std::time::Instant::now();
    let finished = rt.block_on(async move {
        let mut hs = vec![];
        for i in 0..n_calls {
            if !burst {
                // a task that is queued ahead of whatever the next call spawns and does not yield for a while
                tokio::spawn(async move {
                    std::thread::sleep(Duration::from_millis(hog_ms));
                });
            }
            let mut s = svc.clone();
            let fut = async move {
                match s.ready().await {
                    Ok(s) => s.call(i + 1).await.is_ok(),
                    Err(_) => false,
                }
            };
            if burst {
                hs.push(fut);
            } else {
                // sequential: one call at a time, each with its own hog ahead of the primary
                if !fut.await {
                    return false;
                }
            }
        }
        if burst {
            futures::future::join_all(hs).await.into_iter().all(|ok| ok)
        } else {
            true
        }
    });
    drop(rt);
    let took = t0.elapsed();
    if !finished {
        rep.violate("C12:loaded:call-failed", format!("a hedged call over an always-succeeding backend did not resolve with its response (delay {d_ms} ms, max attempts {max})"));
    }
    let st = starts.lock().unwrap_or_else(|e| e.into_inner());
    let mut pairs = 0u64;
    let mut min_gap = u128::MAX;
    for (req, v) in st.iter() {
        if v.len() > max {
            rep.violate("C12:loaded:too-many-attempts", format!("request {req}: {} inner calls with max_hedged_attempts {max}", v.len()));
        }
        for k in 1..v.len() {
            pairs += 1;
            let gap = v[k].saturating_duration_since(v[k - 1]);
            min_gap = min_gap.min(gap.as_micros());
            if gap < d && rep.violations.len() < 3 {
                rep.violate(
                    if k == 1 { "C12:loaded:first-hedge-started-too-early" } else { "C12:loaded:hedge-started-too-early" },
                    format!(
                        "request {req}: attempt {k} reached the backend {} us after attempt {} did, configured delay {} us ({}; real clock, current-thread runtime)",
                        gap.as_micros(), k - 1, d.as_micros(),
                        if burst { format!("{n_calls} hedged calls made at once") } else { format!("a task queued ahead of the attempt spent {hog_ms} ms in one poll") }
                    ),
                );
            }
        }
    }
    rep.count("attempt_pairs_timed", pairs);
    rep.count("hedged_calls", st.len() as u64);
    if min_gap != u128::MAX {
        rep.max("smallest_gap_over_delay_permille", (min_gap * 1000 / d.as_micros().max(1)) as u64);
    }
    rep.bucket(format!("{} d={d_ms}ms max={max}{}", if burst { "burst" } else { "hog" }, if table { " delay_fn" } else { "" }));
    rep.nontrivial = pairs > 0;
    rep.sig = crate::prng::mix(sseed, pairs);
    rep.case = json!({"engine": "stress-loaded-executor", "delay_ms": d_ms, "max": max, "burst": burst, "hog_ms": hog_ms, "calls": n_calls, "wall_ms": took.as_millis() as u64});
    rep
}
