//! C04: circuit breaker vs. its documented state machine (sequential histories, forking
//! reference model).

use crate::actors::boxed;
use crate::prng::{Fnv, Prng};
use crate::report::{Report, Tier};
use crate::sim::run_sim;
use crate::world::{lock, Ev, Lat, Out, Outcome, PErr, Probe, Req, Resp, Step};
use serde_json::json;
use std::sync::{Arc, Mutex};
use std::time::Duration;
use tower::Layer;
use tower_resilience_circuitbreaker::{CircuitBreaker, CircuitBreakerError, CircuitBreakerLayer, CircuitState, SlidingWindowType};

#[derive(Clone, Copy, Debug, PartialEq, Eq)]
pub enum Kind {
    Ok,
    /// error class 1: a failure under every classifier
    Err,
    /// error class 2: not a failure under the custom classifier
    ErrB,
    /// Ok response flagged as failure by the custom classifier
    OkFlagged,
}

#[derive(Clone, Debug)]
pub enum StepK {
    Call { kind: Kind, lat_us: u64 },
    Wait(u64),
    ForceOpen,
    ForceClosed,
    Reset,
}

#[derive(Clone, Debug)]
pub struct Cfg {
    pub preset: &'static str,
    pub time_based: bool,
    pub w: usize,
    pub d_us: u64,
    pub thr: f64,
    /// None = builder default (sliding_window_size)
    pub min_calls: Option<usize>,
    pub wait_us: u64,
    pub permitted: usize,
    pub slow_thr_us: Option<u64>,
    pub slow_rate: f64,
    pub custom_classifier: bool,
    pub steps: Vec<StepK>,
}
impl Cfg {
    pub fn minimum(&self) -> usize {
        self.min_calls.unwrap_or(self.w)
    }
}

pub fn gen(rng: &mut Prng) -> Cfg {
    let roll = rng.below(100);
    let mut c = Cfg {
        preset: "builder",
        time_based: rng.chance(0.4),
        w: rng.range(1, 8) as usize,
        d_us: *rng.pick(&[20_000u64, 50_000, 100_000, 200_000]),
        thr: *rng.pick(&[0.0, 0.25, 0.5, 0.5, 0.75, 1.0, 0.3, 0.6]),
        min_calls: None,
        wait_us: *rng.pick(&[10_000u64, 30_000, 100_000, 10_000, 30_000, 0, 1000, 10_000, 100_000, u64::MAX, u64::MAX / 2]),
        permitted: rng.range(1, 4) as usize,
        slow_thr_us: if rng.chance(0.4) { Some(*rng.pick(&[5_000u64, 10_000])) } else { None },
        slow_rate: *rng.pick(&[0.25, 0.5, 1.0, 0.75]),
        custom_classifier: rng.chance(0.25),
        steps: vec![],
    };
    if roll < 3 {
        // presets: 20-call window etc.; keep histories long enough to fill fast_fail's window
        c.preset = "fast_fail";
        c.time_based = false;
        c.w = 20;
        c.thr = 0.25;
        c.wait_us = 10_000_000;
        c.permitted = 1;
        c.slow_thr_us = None;
        c.custom_classifier = false;
    } else if roll < 5 {
        c.preset = "standard";
        c.time_based = false;
        c.w = 100;
        c.thr = 0.5;
        c.wait_us = 30_000_000;
        c.permitted = 3;
        c.slow_thr_us = None;
        c.custom_classifier = false;
    } else {
        c.min_calls = match rng.below(6) {
            5 => Some(0),
            0 => None,
            1 => Some(1),
            2 => Some(c.w.saturating_sub(1).max(1)),
            3 => Some(c.w),
            _ => Some(c.w + 2),
        };
        if c.time_based && c.min_calls.is_none() && rng.chance(0.7) {
            c.min_calls = Some(rng.range(1, 4) as usize);
        }
    }
    let n_steps = match c.preset {
        "fast_fail" => rng.range(30, 90),
        "standard" => rng.range(110, 260),
        _ => rng.range(5, 80),
    };
    let fail_bias = *rng.pick(&[0.1, 0.3, 0.5, 0.8]);
    let slow_bias = if c.slow_thr_us.is_some() { *rng.pick(&[0.0, 0.2, 0.6]) } else { 0.1 };
    for _ in 0..n_steps {
        let r = rng.below(100);
        let st = if r < 78 {
            let kind = if rng.chance(fail_bias) {
                if c.custom_classifier && rng.chance(0.4) { Kind::OkFlagged } else { Kind::Err }
            } else if c.custom_classifier && rng.chance(0.3) {
                Kind::ErrB
            } else if rng.chance(0.03) {
                Kind::ErrB
            } else {
                Kind::Ok
            };
            let lat_us = match c.slow_thr_us {
                Some(t) => {
                    if rng.chance(slow_bias) {
                        *rng.pick(&[t, t + 1000, t + 1000, 3 * t])
                    } else {
                        *rng.pick(&[0, 1000, t - 1000])
                    }
                }
                None => *rng.pick(&[0, 0, 1000, 3000, 12_000]),
            };
            StepK::Call { kind, lat_us }
        } else if r < 92 {
            let opts = [1000, c.wait_us.saturating_sub(1000), c.wait_us, c.wait_us.saturating_add(1000), c.d_us / 2, c.d_us, c.d_us + 1000, c.d_us - 1000, c.wait_us.saturating_mul(2)];
            // "never recover on its own" waits (Duration::MAX and the like) are not slept through
            let d = *rng.pick(&opts);
            StepK::Wait(if d > 1_000_000_000 { 1_000_000 } else { d })
        } else if r < 95 {
            StepK::ForceOpen
        } else if r < 97 {
            StepK::ForceClosed
        } else {
            StepK::Reset
        };
        c.steps.push(st);
    }
    c
}

#[derive(Clone, Debug)]
pub struct Obs {
    pub step: usize,
    pub t0: u64,
    pub t1: u64,
    pub st_async: u8,
    pub st_sync: u8,
    pub is_open: bool,
    pub st_metrics: u8,
    pub invoked: bool,
    pub outcome: Option<Outcome>,
    pub metrics_total: usize,
}

fn st_u8(s: CircuitState) -> u8 {
    match s {
        CircuitState::Closed => 0,
        CircuitState::Open => 1,
        CircuitState::HalfOpen => 2,
    }
}
pub fn st_name(s: u8) -> &'static str {
    ["Closed", "Open", "HalfOpen"][s as usize]
}

pub fn map_err(e: &CircuitBreakerError<PErr>) -> Outcome {
    match e {
        CircuitBreakerError::Inner(p) => Outcome::inner(p),
        CircuitBreakerError::OpenCircuit => Outcome::layer("OpenCircuit"),
    }
}

pub fn custom_classify(r: &Result<Resp, PErr>) -> bool {
    match r {
        Ok(resp) => resp.payload & 1 == 1 && resp.payload >= (1 << 40),
        Err(e) => e.class != 2,
    }
}

macro_rules! configure {
    ($b:expr, $cfg:expr) => {{
        let mut b = $b;
        if $cfg.preset == "builder" {
            b = b
                .failure_rate_threshold($cfg.thr)
                .sliding_window_size($cfg.w)
                .wait_duration_in_open($crate::props::c04::dur_us($cfg.wait_us))
                .permitted_calls_in_half_open($cfg.permitted)
                .slow_call_rate_threshold($cfg.slow_rate);
            if $cfg.time_based {
                b = b.sliding_window_type(SlidingWindowType::TimeBased).sliding_window_duration(Duration::from_micros($cfg.d_us));
            }
            if let Some(m) = $cfg.min_calls {
                b = b.minimum_number_of_calls(m);
            }
            if let Some(t) = $cfg.slow_thr_us {
                b = b.slow_call_duration_threshold(Duration::from_micros(t));
            }
        }
        b
    }};
}
pub(crate) use configure;

/// u64::MAX stands for Duration::MAX, u64::MAX / 2 for that many *seconds* ("recover only manually")
pub fn dur_us(us: u64) -> Duration {
    if us == u64::MAX {
        Duration::MAX
    } else if us == u64::MAX / 2 {
        Duration::from_secs(u64::MAX / 2)
    } else {
        Duration::from_micros(us)
    }
}

pub fn base_builder(cfg: &Cfg) -> tower_resilience_circuitbreaker::CircuitBreakerConfigBuilder {
    match cfg.preset {
        "fast_fail" => CircuitBreakerLayer::fast_fail(),
        "standard" => CircuitBreakerLayer::standard(),
        "tolerant" => CircuitBreakerLayer::tolerant(),
        _ => CircuitBreakerLayer::builder(),
    }
}

macro_rules! drive_body {
    ($cb:ident, $cfg:ident, $w:ident, $obs:ident) => {{
        let mut cb = $cb;
        let (cfg, w, obs) = ($cfg, $w, $obs);
        let map = map_err;
    for (i, st) in cfg.steps.iter().enumerate() {
        let t0 = w.now();
        let mut outcome = None;
        let mut invoked = false;
        match st {
            StepK::Call { kind, lat_us } => {
                let id = i as u64 + 1;
                let (out, payload) = match kind {
                    Kind::Ok => (Out::Ok, 2 * id),
                    Kind::Err => (Out::Err(1), 2 * id),
                    Kind::ErrB => (Out::Err(2), 2 * id),
                    Kind::OkFlagged => (Out::Ok, (1 << 40) | (2 * id + 1)),
                };
                let mut req = Req::new(id, 0, vec![Step { lat: Lat::Us(*lat_us), out }]);
                req.payload = payload;
                w.log(Ev::Arrive { req: id });
                let before = lock(&w.st).log.len();
                let o = crate::actors::do_call(&w, &mut cb, req, false, &map).await;
                invoked = lock(&w.st).log[before..].iter().any(|r| matches!(r.ev, Ev::InnerEnter { req, .. } if req == id));
                outcome = Some(o);
            }
            StepK::Wait(d) => tokio::time::sleep(Duration::from_micros(*d)).await,
            StepK::ForceOpen => cb.force_open().await,
            StepK::ForceClosed => cb.force_closed().await,
            StepK::Reset => cb.reset().await,
        }
        let st_sync = st_u8(cb.state_sync());
        let is_open = cb.is_open();
        let st_async = st_u8(cb.state().await);
        let m = cb.metrics().await;
        let t1 = w.now();
        lock(&obs).push(Obs { step: i, t0, t1, st_async, st_sync, is_open, st_metrics: st_u8(m.state), invoked, outcome, metrics_total: m.total_calls });
    }
    }};
}

async fn drive<C>(cb: CircuitBreaker<Probe, C>, cfg: Cfg, w: Arc<crate::world::World>, obs: Arc<Mutex<Vec<Obs>>>)
where
    C: tower_resilience_circuitbreaker::classifier::FailureClassifier<Resp, PErr> + Send + Sync + 'static,
{
    drive_body!(cb, cfg, w, obs)
}

/// The same driver on the variant with a fallback (the fallback answers with src = 97, which the
/// model reads as "rejected").
async fn drive_fb<C>(cb: CircuitBreaker<Probe, C>, cfg: Cfg, w: Arc<crate::world::World>, obs: Arc<Mutex<Vec<Obs>>>)
where
    C: tower_resilience_circuitbreaker::classifier::FailureClassifier<Resp, PErr> + Send + Sync + 'static,
{
    let cb = cb.with_fallback(|req: Req| -> futures::future::BoxFuture<'static, Result<Resp, PErr>> {
        Box::pin(async move { Ok(Resp { serial: 0, req_id: req.id, payload: req.payload, src: 97 }) })
    });
    drive_body!(cb, cfg, w, obs)
}

pub fn run(cfg: &Cfg, seed: u64) -> (Arc<crate::world::World>, Vec<Obs>, crate::sim::SimStats) {
    let obs = Arc::new(Mutex::new(Vec::new()));
    let obs2 = obs.clone();
    let (w, stats, ()) = run_sim(seed, |sim| {
        let w = sim.w.clone();
        let cfg2 = cfg.clone();
        let total: u64 = cfg
            .steps
            .iter()
            .map(|s| match s {
                StepK::Call { lat_us, .. } => *lat_us,
                StepK::Wait(d) => *d,
                _ => 0,
            })
            .sum();
        sim.horizon = total + 10_000_000;
        // a sibling breaker built by a second `layer()` call on the same layer value: it has its own
        // circuit, so whatever happens to it (failures, force_open) must not show in the breaker under test
        let sibling = seed % 3 == 0;
        // the variant with a fallback has its own copies of reset / force_* / state / metrics
        let with_fallback = (seed >> 4) % 4 == 0;
        if with_fallback {
            w.note("breaker driven through with_fallback()");
        }
        macro_rules! sibling_actor {
            ($layer:expr) => {{
                if sibling {
                    let mut sib = $layer.layer(w.probe(2));
                    let w3 = w.clone();
                    let n_calls = 4 + (seed >> 8) % 24;
                    let gap = 1000 * (1 + (seed >> 16) % 9);
                    let b = sim.actor(1, move || {
                        boxed(async move {
                            for i in 0..n_calls {
                                let req = Req::new(1_000_000 + i, 0, vec![Step { lat: Lat::Us(0), out: Out::Err(1) }]);
                                let _ = crate::actors::do_call(&w3, &mut sib, req, false, &|e| map_err(e)).await;
                                tokio::time::sleep(std::time::Duration::from_micros(gap)).await;
                            }
                            sib.force_open().await;
                        })
                    });
                    sim.start_at(0, b);
                }
            }};
        }
        let fut = if cfg.custom_classifier {
            let layer = configure!(base_builder(cfg), cfg).failure_classifier(custom_classify).build();
            let cb = layer.layer(w.probe(1));
            sibling_actor!(layer);
            if with_fallback { boxed(drive_fb(cb, cfg2, w.clone(), obs2)) } else { boxed(drive(cb, cfg2, w.clone(), obs2)) }
        } else {
            let layer = configure!(base_builder(cfg), cfg).build();
            let cb = layer.layer(w.probe(1));
            sibling_actor!(layer);
            if with_fallback { boxed(drive_fb(cb, cfg2, w.clone(), obs2)) } else { boxed(drive(cb, cfg2, w.clone(), obs2)) }
        };
        let a = sim.actor(0, move || fut);
        sim.start_at(0, a);
    });
    let o = lock(&obs).clone();
    (w, o, stats)
}

// ---------------------------------------------------------------------------------------
// forking reference machine
// ---------------------------------------------------------------------------------------

#[derive(Clone, Debug, PartialEq)]
pub struct M {
    st: u8,
    since: u64,
    /// (completion instant, failure, slow) recorded since the last transition / reset
    recs: Vec<(u64, bool, bool)>,
    ho_succ: usize,
    /// reading of "minimum_number_of_calls recorded": false = calls currently in the window,
    /// true = calls recorded since the window was last emptied
    reading_b: bool,
}

fn transition(m: &mut M, st: u8, now: u64) {
    m.st = st;
    m.since = now;
    m.recs.clear();
    m.ho_succ = 0;
}

/// possible answers to "does the window say open now?"
fn should_open(m: &M, cfg: &Cfg, now: u64) -> Vec<bool> {
    let mut res = vec![];
    // window contents; for the time-based window an age exactly equal to the duration may or may not count
    let variants: Vec<Vec<(u64, bool, bool)>> = if cfg.time_based {
        let strict: Vec<_> = m.recs.iter().filter(|r| now - r.0 < cfg.d_us).cloned().collect();
        let incl: Vec<_> = m.recs.iter().filter(|r| now - r.0 <= cfg.d_us).cloned().collect();
        if strict.len() == incl.len() { vec![incl] } else { vec![strict, incl] }
    } else {
        let n = m.recs.len();
        vec![m.recs[n.saturating_sub(cfg.w)..].to_vec()]
    };
    for win in variants {
        let total = win.len();
        // count-based: "at least minimum_number_of_calls recorded" can only mean the calls recorded
        // since the window was last emptied (with minimum > window size the other reading would
        // never evaluate the rate at all); for the time-based window both readings are accepted
        let recorded = if m.reading_b || !cfg.time_based { m.recs.len() } else { total };
        if recorded < cfg.minimum() || total == 0 {
            res.push(false);
            continue;
        }
        if !cfg.time_based && total < cfg.w {
            res.push(false);
            continue;
        }
        let f = win.iter().filter(|r| r.1).count();
        let s = win.iter().filter(|r| r.2).count();
        let fr = f as f64 / total as f64;
        let sr = s as f64 / total as f64;
        // f/total is correctly rounded, so it equals the threshold literal exactly whenever the
        // rational does: "reaches its threshold" is decided without tolerance
        let f_yes = fr >= cfg.thr;
        let s_yes = cfg.slow_thr_us.is_some() && sr >= cfg.slow_rate;
        let opts = vec![f_yes || s_yes];
        res.extend(opts);
    }
    res.sort();
    res.dedup();
    res
}

pub fn is_failure(kind: Kind, custom: bool) -> bool {
    match kind {
        Kind::Ok => false,
        Kind::Err => true,
        Kind::ErrB => !custom,
        Kind::OkFlagged => custom,
    }
}

/// All successor candidates of `m` for one step, with the expected "inner invoked" flag.
fn step(m: &M, cfg: &Cfg, st: &StepK, o: &Obs) -> Vec<(M, bool)> {
    let mut out = vec![];
    match st {
        StepK::Wait(_) => out.push((m.clone(), false)),
        StepK::ForceOpen => {
            if m.st == 1 {
                out.push((m.clone(), false));
                let mut b = m.clone();
                transition(&mut b, 1, o.t0);
                out.push((b, false));
            } else {
                let mut b = m.clone();
                transition(&mut b, 1, o.t0);
                out.push((b, false));
            }
        }
        StepK::ForceClosed => {
            if m.st == 0 {
                out.push((m.clone(), false));
            }
            let mut b = m.clone();
            transition(&mut b, 0, o.t0);
            out.push((b, false));
        }
        StepK::Reset => {
            let mut b = m.clone();
            transition(&mut b, 0, o.t0);
            out.push((b, false));
        }
        StepK::Call { kind, lat_us } => {
            let fail = is_failure(*kind, cfg.custom_classifier);
            let slows: Vec<bool> = match cfg.slow_thr_us {
                None => vec![false],
                Some(t) if *lat_us == t => vec![true, false],
                Some(t) => vec![*lat_us > t],
            };
            // admission
            let mut admitted: Vec<M> = vec![];
            let mut rejected = false;
            match m.st {
                0 | 2 => admitted.push(m.clone()),
                _ => {
                    let el = o.t0 - m.since;
                    if el >= cfg.wait_us {
                        let mut b = m.clone();
                        transition(&mut b, 2, o.t0);
                        admitted.push(b);
                    }
                    if el <= cfg.wait_us {
                        rejected = true;
                    }
                }
            }
            if rejected {
                out.push((m.clone(), false));
            }
            for a in admitted {
                for &slow in &slows {
                    let mut b = a.clone();
                    let tc = o.t0 + *lat_us;
                    match b.st {
                        2 => {
                            if fail {
                                transition(&mut b, 1, tc);
                            } else {
                                b.ho_succ += 1;
                                if b.ho_succ >= cfg.permitted {
                                    transition(&mut b, 0, tc);
                                }
                            }
                            out.push((b, true));
                        }
                        _ => {
                            b.recs.push((tc, fail, slow));
                            for open in should_open(&b, cfg, tc) {
                                let mut c = b.clone();
                                if open {
                                    transition(&mut c, 1, tc);
                                }
                                out.push((c, true));
                            }
                        }
                    }
                }
            }
        }
    }
    out
}

pub fn judge(cfg: &Cfg, obs: &[Obs]) -> Report {
    let mut rep = Report::default();
    let wt = if cfg.time_based { "time" } else { "count" };
    let mut cands: Vec<M> = vec![
        M { st: 0, since: 0, recs: vec![], ho_succ: 0, reading_b: false },
        M { st: 0, since: 0, recs: vec![], ho_succ: 0, reading_b: true },
    ];
    let mut transitions = 0u64;
    let mut prev_state = 0u8;
    let mut max_cands = 2usize;
    for o in obs {
        let st = &cfg.steps[o.step];
        // the four views must agree
        if !(o.st_async == o.st_sync && o.st_sync == o.st_metrics && o.is_open == (o.st_sync == 1)) {
            rep.violate(
                format!("C04:{wt}:views-disagree"),
                format!("after step {} ({:?}): state()={} state_sync()={} is_open()={} metrics().state={}", o.step, st, st_name(o.st_async), st_name(o.st_sync), o.is_open, st_name(o.st_metrics)),
            );
            break;
        }
        let mut next: Vec<M> = vec![];
        let mut expected: Vec<(u8, bool)> = vec![];
        for m in &cands {
            for (n, invoked) in step(m, cfg, st, o) {
                expected.push((n.st, invoked));
                if n.st == o.st_async && invoked == o.invoked && !next.contains(&n) {
                    next.push(n);
                }
            }
        }
        if next.is_empty() {
            expected.sort();
            expected.dedup();
            let exp: Vec<String> = expected.iter().map(|(s, i)| format!("{}{}", st_name(*s), if *i { "+inner" } else { "" })).collect();
            let kind = match st {
                StepK::Call { .. } => "call",
                StepK::Wait(_) => "wait",
                StepK::ForceOpen => "force_open",
                StepK::ForceClosed => "force_closed",
                StepK::Reset => "reset",
            };
            let hist: Vec<String> = cfg.steps[..=o.step].iter().map(|s| format!("{s:?}")).collect();
            rep.violate(
                format!("C04:{wt}:{kind}:expected[{}]:observed[{}{}]", exp.join("|"), st_name(o.st_async), if o.invoked { "+inner" } else { "" }),
                format!(
                    "step {} ({:?}) at t={}us: documented machine allows {:?}, breaker shows {}{} (metrics.total_calls={}); config window={} {} thr={} min={:?} wait={}us permitted={} slow={:?}/{} custom_classifier={}; history: {}",
                    o.step, st, o.t0, exp, st_name(o.st_async), if o.invoked { " and called the inner service" } else { "" }, o.metrics_total,
                    wt, if cfg.time_based { format!("{}us", cfg.d_us) } else { format!("{}", cfg.w) }, cfg.thr, cfg.min_calls, cfg.wait_us, cfg.permitted, cfg.slow_thr_us, cfg.slow_rate, cfg.custom_classifier,
                    hist.join(", ")
                ),
            );
            break;
        }
        cands = next;
        max_cands = max_cands.max(cands.len());
        if cands.len() > 4096 {
            rep.inconclusive = Some("candidate explosion".into());
            break;
        }
        if o.st_async != prev_state {
            transitions += 1;
            prev_state = o.st_async;
        }
    }
    rep.max("max_model_candidates", max_cands as u64);
    rep.count("transitions", transitions);
    rep.count("steps", obs.len() as u64);
    let long_enough = if cfg.time_based { obs.len() > 4 } else { obs.len() > cfg.w };
    rep.nontrivial = transitions >= 1 && long_enough;
    rep.bucket(format!("{}:{} min={} slow={} custom={}", cfg.preset, wt, match cfg.min_calls { None => "default", Some(m) if m > cfg.w => "above", Some(m) if m == cfg.w => "equal", _ => "below" }, cfg.slow_thr_us.is_some(), cfg.custom_classifier));
    rep
}

pub fn scenario(sseed: u64, _tier: Tier) -> Report {
    let mut rng = Prng::new(sseed);
    let cfg = gen(&mut rng);
    let (w, obs, stats) = run(&cfg, rng.next());
    let mut rep = judge(&cfg, &obs);
    let mut sig = Fnv::default();
    for o in &obs {
        sig.add(o.st_async as u64);
        sig.add(o.invoked as u64);
        sig.add(o.t1);
    }
    sig.add_str(&format!("{:?}{}{}{:?}", cfg.time_based, cfg.w, cfg.thr, cfg.min_calls));
    rep.sig = sig.0;
    if stats.hit_poll_cap || stats.hit_horizon || obs.len() != cfg.steps.len() {
        rep.inconclusive = Some(format!("poll_cap={} horizon={} steps_done={}/{}", stats.hit_poll_cap, stats.hit_horizon, obs.len(), cfg.steps.len()));
    }
    let trace: Vec<String> = obs.iter().map(|o| format!("{}:{:?}->{}{}", o.step, cfg.steps[o.step], st_name(o.st_async), if o.invoked { "+inner" } else { "" })).collect();
    rep.case = json!({"cfg": format!("{:?}", Cfg { steps: vec![], ..cfg.clone() }), "trace": trace});
    let full_log = w.take_log();
    let sib = full_log.iter().filter(|r| matches!(&r.ev, Ev::InnerEnter { req, .. } if *req >= 1_000_000)).count() as u64;
    rep.count("sibling_breaker_inner_calls", sib);
    if sib > 0 {
        rep.count("scenarios_with_sibling_breaker", 1);
    }
    if full_log.iter().any(|r| matches!(&r.ev, Ev::Note { what } if what.contains("with_fallback"))) {
        rep.count("scenarios_on_the_fallback_variant", 1);
    }
    rep.log = if rep.violations.is_empty() { vec![] } else { full_log };
    rep
}
