//! C11: coalesce – one inner call per key, shared result, no orphaned waiters.

use crate::actors::{caller_linger, Linger};
use crate::prng::{Fnv, Prng};
use crate::report::{Report, Tier};
use crate::sim::{run_sim, ActorState, What};
use crate::world::{lock, Ev, How, Lat, Out, Outcome, PErr, Rec, Req, Step, World};
use serde_json::json;
use std::collections::HashMap;
use std::sync::Arc;
use tower::{Layer, Service};
use tower_resilience_coalesce::{CoalesceError, CoalesceLayer};

#[derive(Clone, Debug)]
struct R {
    key: u32,
    arrive_poll: u64,
    out: Out,
    /// inner call (if this request leads) completes when the director opens its gate
    open_poll: u64,
    pause: bool,
    drop_poll: Option<u64>,
    drop_after_polls: Option<u32>,
    /// keep the completed call future alive for this many further scheduling steps
    linger: u32,
    /// 1 or 2: which of the services built by separate `layer()` calls (own in-flight table each)
    svc: u32,
}

#[derive(Clone, Debug)]
pub struct Cfg {
    reqs: Vec<R>,
    last_event: u64,
}

pub fn gen(rng: &mut Prng, small: bool) -> Cfg {
    let n_keys = rng.range(1, 3) as u32;
    let n_svcs = if rng.chance(0.25) { 2 } else { 1 };
    let n = if small { rng.range(3, 6) } else { rng.range(2, 12) };
    let span = if small { 16 } else { 40 };
    let mut reqs = vec![];
    let mut last = 0;
    for _ in 0..n {
        let arrive = rng.below(span);
        let open = arrive + rng.below(span);
        let (mut drop_poll, mut drop_after) = (None, None);
        if rng.chance(0.3) {
            if rng.chance(0.5) {
                drop_poll = Some(arrive + rng.below(span));
            } else {
                drop_after = Some(rng.range(1, 4) as u32);
            }
        }
        last = last.max(open).max(drop_poll.unwrap_or(0));
        reqs.push(R {
            key: rng.below(n_keys as u64) as u32,
            arrive_poll: arrive,
            out: match rng.below(10) {
                0..=5 => Out::Ok,
                6..=7 => Out::Err(1),
                8 => Out::Panic,
                _ => Out::PanicInCall,
            },
            open_poll: open,
            pause: rng.chance(0.3),
            drop_poll,
            drop_after_polls: drop_after,
            linger: if rng.chance(0.3) { rng.range(1, 25) as u32 } else { 0 },
            svc: 1 + rng.below(n_svcs) as u32,
        });
    }
    Cfg { reqs, last_event: last }
}

pub fn map_err(e: &CoalesceError<PErr>) -> Outcome {
    match e {
        CoalesceError::Service(p) => Outcome::inner(p),
        CoalesceError::LeaderCancelled => Outcome::layer("LeaderCancelled"),
        CoalesceError::RecvError => Outcome::layer("RecvError"),
    }
}

pub fn run(cfg: &Cfg, seed: u64) -> (Arc<World>, crate::sim::SimStats) {
    let (w, stats, ()) = run_sim(seed, |sim| {
        let w = sim.w.clone();
        let layer = CoalesceLayer::new(|r: &Req| r.key);
        // a third of the scenarios: no service value outlives `call()` (every request is a
        // `clone().oneshot(req)`, the owner is gone), only the call futures are alive
        if seed % 3 == 0 {
            w.oneshot_style.store(1, std::sync::atomic::Ordering::Relaxed);
        }
        // a third of the scenarios: callers catch a panic of their call future and keep the dead future
        // for a while (FutureExt::catch_unwind on a pinned future) instead of dropping it at once
        if (seed >> 5) % 3 == 0 {
            w.keep_panicked_call.store(30, std::sync::atomic::Ordering::Relaxed);
        }
        // separate `layer()` calls: every service coalesces on its own
        let svcs = [layer.layer(w.probe(1)), layer.layer(w.probe(2))];
        for (i, r) in cfg.reqs.iter().enumerate() {
            let gate = w.new_gate();
            let req = Req::new(i as u64 + 1, r.key, vec![Step { lat: Lat::Gate(gate), out: r.out }]);
            let svc = &svcs[(r.svc - 1) as usize];
            let a = sim.actor(req.id, caller_linger(w.clone(), svc.clone(), req, r.pause, if r.linger > 0 { Linger::Polls(r.linger) } else { Linger::No }, map_err));
            sim.at_poll(r.arrive_poll, What::Start(a));
            sim.at_poll(r.open_poll, What::OpenGate(gate));
            if let Some(d) = r.drop_poll {
                sim.at_poll(d, What::Drop(a));
            }
            if let Some(k) = r.drop_after_polls {
                sim.drop_after_polls(a, k);
            }
        }
        sim.p_yield = 0.0;
        sim.fair_after_poll = Some(cfg.last_event + 1);
        // progress bound: after the last external event every surviving caller must finish
        // within 8 round-robin rounds
        sim.poll_cap = cfg.last_event + 1 + (8 + 25) * (cfg.reqs.len() as u64 + 1) + 64;
    });
    (w, stats)
}

pub fn scenario(sseed: u64, _tier: Tier, small: bool) -> Report {
    let mut rng = Prng::new(sseed);
    let cfg = gen(&mut rng, small);
    let (w, stats) = run(&cfg, rng.next());
    let log = w.take_log();
    let mut rep = judge(&cfg, &log, &stats);
    let mut sig = Fnv::default();
    sig.add(stats.trace_sig);
    for r in &log {
        if let Ev::Resolve { req, out } = &r.ev {
            sig.add(*req);
            sig.add_str(&out.short());
        }
    }
    rep.sig = sig.0;
    rep.count("polls", stats.polls);
    rep.count("events", log.len() as u64);
    rep.case = json!({"cfg": format!("{cfg:?}")});
    rep.log = log;
    rep
}

pub fn judge(cfg: &Cfg, log: &[Rec], stats: &crate::sim::SimStats) -> Report {
    let mut rep = Report::default();
    // per key: the inner call currently in flight (serial, leader req)
    let mut flying: HashMap<u32, (u64, u64)> = HashMap::new();
    // serial -> how the inner call ended
    let mut ended: HashMap<u64, How> = HashMap::new();
    // waiter req -> serial of the call it joined
    let mut joined: HashMap<u64, u64> = HashMap::new();
    let mut leader_of: HashMap<u64, u64> = HashMap::new(); // leader req -> own serial
    let mut entered_since_ready: HashMap<u64, u64> = HashMap::new();
    let mut n_joined = 0u64;
    let mut leader_faults = 0u64;
    // keys are per service: (service, key) folded into one number
    let key_of = |req: u64| cfg.reqs[(req - 1) as usize].svc * 1000 + cfg.reqs[(req - 1) as usize].key;
    for r in log {
        match &r.ev {
            Ev::InnerEnter { req, key, serial, group, .. } => {
                let key = &(*group * 1000 + *key);
                if let Some((s, l)) = flying.get(key) {
                    rep.violate("C11:two-inner-calls-one-key", format!("r{req} started inner call #{serial} for key {key} while #{s} (leader r{l}) was still in flight"));
                }
                flying.insert(*key, (*serial, *req));
                leader_of.insert(*req, *serial);
                entered_since_ready.insert(*req, *serial);
            }
            Ev::InnerExit { key, serial, how, group, .. } => {
                let key = &(*group * 1000 + *key);
                ended.insert(*serial, how.clone());
                if flying.get(key).map(|f| f.0) == Some(*serial) {
                    flying.remove(key);
                }
                if matches!(how, How::Dropped | How::Panicked) {
                    leader_faults += 1;
                }
            }
            Ev::Issued { req } => {
                let k = key_of(*req);
                let own = entered_since_ready.contains_key(req);
                match flying.get(&k) {
                    Some((s, l)) if *l != *req => {
                        // an inner call of another request is in flight for this key
                        joined.insert(*req, *s);
                        n_joined += 1;
                        if own {
                            rep.violate("C11:waiter-made-inner-call", format!("r{req} arrived while inner call #{s} for key {k} was in flight and still caused its own inner call"));
                        }
                    }
                    Some(_) => {}
                    None => {
                        // the key is free: this request must lead at once (it did iff it entered,
                        // even if that call has already ended)
                        if !own {
                            rep.violate("C11:free-key-did-not-lead", format!("r{req} arrived for key {k} with no inner call in flight but did not start one"));
                        }
                    }
                }
            }
            Ev::Resolve { req, out } => {
                if let Outcome::Layer { kind, .. } = out {
                    if kind == "RecvError" {
                        rep.violate("C11:recv-error", format!("r{req} resolved with RecvError"));
                    }
                }
                if let Some(s) = joined.get(req) {
                    let expect_ok = match ended.get(s) {
                        Some(How::Ok) => matches!(out, Outcome::Ok { serial, .. } if serial == s),
                        Some(How::Err(_)) => matches!(out, Outcome::Inner { serial, .. } if serial == s),
                        Some(How::Dropped) | Some(How::Panicked) => matches!(out, Outcome::Layer { kind, .. } if kind == "LeaderCancelled"),
                        None => false,
                    };
                    if !expect_ok {
                        rep.violate(
                            "C11:waiter-wrong-result",
                            format!("r{req} joined inner call #{s} (ended {:?}) but resolved with {}", ended.get(s), out.short()),
                        );
                    }
                    rep.count("waiter_results_checked", 1);
                } else if let Some(s) = leader_of.get(req) {
                    let ok = match ended.get(s) {
                        Some(How::Ok) => matches!(out, Outcome::Ok { serial, req_id, .. } if serial == s && req_id == req),
                        Some(How::Err(_)) => matches!(out, Outcome::Inner { serial, .. } if serial == s),
                        _ => false,
                    };
                    if !ok {
                        rep.violate("C11:leader-wrong-result", format!("leader r{req} (inner call #{s}, ended {:?}) resolved with {}", ended.get(s), out.short()));
                    }
                }
            }
            Ev::ActorPanic { req, msg } => {
                if !msg.contains("probe: scripted panic") {
                    rep.violate("C11:library-panic", format!("r{req}: {msg}"));
                }
            }
            _ => {}
        }
    }
    // nobody waits forever: after the last external event and the fair drain phase every
    // surviving caller has resolved
    // (the same holds when the simulation ends because nobody is runnable any more: a waiter that
    // returned Pending without arranging a wake-up is never polled again)
    {
        let answered: std::collections::HashSet<u64> = log.iter().filter_map(|r| match &r.ev {
            Ev::Resolve { req, .. } | Ev::ActorPanic { req, .. } => Some(*req),
            _ => None,
        }).collect();
        let stuck: Vec<u64> = stats.states.iter().filter(|(r, s)| *s == ActorState::Running && !answered.contains(r)).map(|(r, _)| *r).collect();
        if !stuck.is_empty() {
            rep.violate(
                "C11:caller-stuck",
                format!("callers {stuck:?} were still pending {} round-robin polls after the last external event (no inner call can complete any more)", stats.polls - cfg.last_event.min(stats.polls)),
            );
        }
    }
    rep.count("waiters_joined", n_joined);
    rep.count("leader_drops_or_panics", leader_faults);
    rep.nontrivial = n_joined >= 1 && leader_faults >= 1;
    rep
}

// ---------------------------------------------------------------------------------------
// E-STRESS: real threads; only per-key single flight, value-belongs-to-key and serial matching
// ---------------------------------------------------------------------------------------

pub fn stress(sseed: u64, calls: u64) -> Report {
    let mut rng = Prng::new(sseed);
    let workers = *rng.pick(&[4usize, 8, 16]);
    let n_keys = 3u32;
    let mut rep = Report::default();
    let rt = tokio::runtime::Builder::new_multi_thread().worker_threads(workers).enable_time().build().unwrap();
    let w = World::new();
    let svc = CoalesceLayer::new(|r: &Req| r.key).layer(w.probe(1));
    let tasks = 48u64;
    let per = calls / tasks;
    let results = rt.block_on(async { tokio::time::timeout(std::time::Duration::from_secs(120), async {
        let mut hs = vec![];
        for t in 0..tasks {
            let svc = svc.clone();
            let s_world = w.clone();
            let mut r = Prng::new(sseed ^ (t * 7919));
            hs.push(tokio::spawn(async move {
                let mut out: Vec<(u64, u32, Outcome)> = vec![];
                for i in 0..per {
                    let mut s = svc.clone();
                    let key = r.below(n_keys as u64) as u32;
                    let lat = if r.chance(0.3) { Lat::Us(0) } else { Lat::Us(r.range(1, 200)) };
                    let o = if r.chance(0.8) { Out::Ok } else { Out::Err(1) };
                    let id = t * 10_000_000 + i + 1;
                    let req = Req::new(id, key, vec![Step { lat, out: o }]);
                    if std::future::poll_fn(|cx| s.poll_ready(cx)).await.is_err() {
                        continue;
                    }
                    let fut = Tracked { fut: Box::pin(s.call(req)), w: s_world.clone(), req: id, done: false };
                    if r.chance(0.1) {
                        let h = tokio::spawn(fut);
                        tokio::time::sleep(std::time::Duration::from_micros(r.range(0, 150))).await;
                        h.abort();
                        let _ = h.await;
                    } else {
                        let res = fut.await;
                        out.push((id, key, match &res { Ok(x) => Outcome::ok(x), Err(e) => map_err(e) }));
                    }
                }
                out
            }));
        }
        let mut all = vec![];
        for h in hs {
            if let Ok(v) = h.await {
                all.extend(v);
            }
        }
        all
    }).await });
    rt.shutdown_background();
    let results = match results {
        Ok(r) => r,
        Err(_) => {
            rep.inconclusive = Some("stress run did not finish within 120s of wall clock (callers stuck?)".into());
            return rep;
        }
    };
    // serial -> (key, how)
    let log = w.take_log();
    let mut serial_key: HashMap<u64, u32> = HashMap::new();
    let mut serial_req: HashMap<u64, u64> = HashMap::new();
    let mut flying: HashMap<u32, u64> = HashMap::new();
    let mut overlap_seen = 0u64;
    for r in &log {
        match &r.ev {
            Ev::InnerEnter { key, serial, req, .. } => {
                serial_key.insert(*serial, *key);
                serial_req.insert(*serial, *req);
                if let Some(s) = flying.get(key) {
                    rep.violate("C11:two-inner-calls-one-key", format!("stress: r{req} started inner call #{serial} for key {key} while #{s} was in flight"));
                }
                flying.insert(*key, *serial);
            }
            Ev::InnerExit { key, serial, .. } => {
                if flying.get(key) == Some(serial) {
                    flying.remove(key);
                }
            }
            // the caller began dropping this request's future: if it leads an inner call, that
            // call is over from here on (the drop is one operation at the client boundary; the
            // library frees the key and drops the inner future somewhere inside it)
            Ev::Cancelled { req } => {
                flying.retain(|_, s| serial_req.get(s) != Some(req));
            }
            _ => {}
        }
    }
    let inner_calls = serial_key.len() as u64;
    let mut shared = 0u64;
    for (id, key, out) in &results {
        match out {
            Outcome::Ok { serial, .. } | Outcome::Inner { serial, .. } => {
                match serial_key.get(serial) {
                    Some(k) if k == key => {}
                    other => rep.violate("C11:value-of-another-key", format!("stress: r{id} (key {key}) got the result of inner call #{serial} which belongs to key {other:?}")),
                }
                if let Outcome::Ok { req_id, .. } = out {
                    if req_id != id {
                        shared += 1;
                    }
                }
            }
            Outcome::Layer { kind, .. } if kind == "RecvError" => rep.violate("C11:recv-error", format!("stress: r{id} resolved with RecvError")),
            _ => {}
        }
    }
    overlap_seen += shared;
    let _ = lock(&w.st).max_inflight_key; // not judged: it cannot see where a cancelling drop begins
    rep.nontrivial = overlap_seen > 0;
    rep.sig = crate::prng::mix(sseed, inner_calls);
    rep.count("stress_requests_resolved", results.len() as u64);
    rep.count("stress_inner_calls", inner_calls);
    rep.count("stress_results_shared_with_waiters", shared);
    rep.case = json!({"engine":"stress","workers":workers,"requests":per*tasks,"resolved":results.len(),"inner_calls":inner_calls,"shared_results":shared});
    rep
}

/// Client-side wrapper: logs the beginning of a cancelling drop before the library's own Drop runs.
struct Tracked<F> {
    fut: std::pin::Pin<Box<F>>,
    w: Arc<World>,
    req: u64,
    done: bool,
}
impl<F: std::future::Future> std::future::Future for Tracked<F> {
    type Output = F::Output;
    fn poll(mut self: std::pin::Pin<&mut Self>, cx: &mut std::task::Context<'_>) -> std::task::Poll<F::Output> {
        let r = self.fut.as_mut().poll(cx);
        if r.is_ready() {
            self.done = true;
        }
        r
    }
}
impl<F> Drop for Tracked<F> {
    fn drop(&mut self) {
        if !self.done {
            self.w.log(Ev::Cancelled { req: self.req });
        }
    }
}

// ---------------------------------------------------------------------------------------
// E-STRESS (threads): every caller is an OS thread that drives its call future itself with a
// no-op waker (coalesce needs no runtime when the inner call has no timer), so requests really
// arrive *while* a leader is completing on another core.
// ---------------------------------------------------------------------------------------

pub fn stress_threads(sseed: u64, per_thread: u64) -> Report {
    use std::future::Future;
    use std::task::{Context, Poll, Wake, Waker};
    struct Noop;
    impl Wake for Noop {
        fn wake(self: Arc<Self>) {}
    }
    let mut rng = Prng::new(sseed);
    let threads = *rng.pick(&[4usize, 8, 12]);
    let n_keys = *rng.pick(&[1u32, 2]);
    let with_cancels = rng.chance(0.5);
    let mut rep = Report::default();
    let w = World::new();
    let svc = CoalesceLayer::new(|r: &Req| r.key).layer(w.probe(1));
    let mut hs = vec![];
    for t in 0..threads as u64 {
        let svc = svc.clone();
        let w2 = w.clone();
        let mut r = Prng::new(sseed ^ (t + 1) * 0x51ED);
        hs.push(std::thread::spawn(move || {
            let waker = Waker::from(Arc::new(Noop));
            let mut cx = Context::from_waker(&waker);
            let mut out: Vec<(u64, u32, Option<Outcome>, u64, u64)> = vec![];
            for i in 0..per_thread {
                let mut s = svc.clone();
                let key = r.below(n_keys as u64) as u32;
                let id = (t + 1) * 10_000_000 + i;
                let o = if r.chance(0.85) { Out::Ok } else { Out::Err(1) };
                let req = Req::new(id, key, vec![Step { lat: Lat::Us(0), out: o }]);
                let _ = s.poll_ready(&mut cx);
                let seq0 = w2.log(Ev::Note { what: String::new() });
                let mut fut = Tracked { fut: Box::pin(s.call(req)), w: w2.clone(), req: id, done: false };
                let budget = if with_cancels && r.chance(0.15) { r.below(3) } else { u64::MAX };
                let mut polls = 0u64;
                let res = loop {
                    if polls >= budget {
                        break None;
                    }
                    polls += 1;
                    match std::pin::Pin::new(&mut fut).poll(&mut cx) {
                        Poll::Ready(x) => break Some(x),
                        Poll::Pending => {
                            if polls % 64 == 0 {
                                std::thread::yield_now();
                            }
                            if polls > 50_000_000 {
                                break None;
                            }
                        }
                    }
                };
                let stuck = res.is_none() && budget == u64::MAX;
                drop(fut);
                let seq1 = w2.log(Ev::Note { what: String::new() });
                let oc = res.map(|x| match &x { Ok(v) => Outcome::ok(v), Err(e) => map_err(e) });
                if stuck {
                    out.push((id, key, Some(Outcome::layer("STUCK")), seq0, seq1));
                } else {
                    out.push((id, key, oc, seq0, seq1));
                }
            }
            out
        }));
    }
    let mut results = vec![];
    for h in hs {
        if let Ok(v) = h.join() {
            results.extend(v);
        }
    }
    let log = w.take_log();
    let mut serial_key: HashMap<u64, u32> = HashMap::new();
    let mut serial_req: HashMap<u64, u64> = HashMap::new();
    let mut flying: HashMap<u32, u64> = HashMap::new();
    // cancelled leaders: request -> (seq at which the caller began dropping it, seq at which its
    // inner call was dropped, key); the library frees the key somewhere in between
    let mut leader_cancels: HashMap<u64, (u64, u64, u32)> = HashMap::new();
    let mut req_key: HashMap<u64, u32> = HashMap::new();
    for (id, key, ..) in &results {
        req_key.insert(*id, *key);
    }
    for r in &log {
        match &r.ev {
            Ev::InnerEnter { key, serial, req, .. } => {
                serial_key.insert(*serial, *key);
                serial_req.insert(*serial, *req);
                if let Some(s) = flying.get(key) {
                    rep.violate("C11:two-inner-calls-one-key", format!("threads: r{req} started inner call #{serial} for key {key} while #{s} was in flight"));
                }
                flying.insert(*key, *serial);
            }
            Ev::InnerExit { key, serial, how, .. } => {
                if flying.get(key) == Some(serial) {
                    flying.remove(key);
                }
                if matches!(how, How::Dropped | How::Panicked) {
                    if let Some(q) = serial_req.get(serial) {
                        let e = leader_cancels.entry(*q).or_insert((r.seq, r.seq, *key));
                        e.1 = r.seq;
                    }
                }
            }
            Ev::Cancelled { req } => {
                flying.retain(|_, s| serial_req.get(s) != Some(req));
                if let Some(k) = req_key.get(req) {
                    leader_cancels.insert(*req, (r.seq, u64::MAX, *k));
                }
            }
            _ => {}
        }
    }
    let mut shared = 0u64;
    let mut cancelled_seen = 0u64;
    for (id, key, out, seq0, seq1) in &results {
        match out {
            Some(Outcome::Ok { serial, req_id, .. }) => {
                match serial_key.get(serial) {
                    Some(k) if k == key => {}
                    other => rep.violate("C11:value-of-another-key", format!("threads: r{id} (key {key}) got the result of inner call #{serial} of key {other:?}")),
                }
                if req_id != id {
                    shared += 1;
                }
            }
            Some(Outcome::Inner { serial, .. }) => {
                if serial_key.get(serial) != Some(key) {
                    rep.violate("C11:value-of-another-key", format!("threads: r{id} (key {key}) got the error of inner call #{serial} of another key"));
                }
            }
            Some(Outcome::Layer { kind, .. }) if kind == "RecvError" => rep.violate("C11:recv-error", format!("threads: r{id} resolved with RecvError")),
            Some(Outcome::Layer { kind, .. }) if kind == "STUCK" => rep.violate("C11:caller-stuck", format!("threads: r{id} was still pending after 5*10^7 polls")),
            Some(Outcome::Layer { kind, .. }) if kind == "LeaderCancelled" => {
                cancelled_seen += 1;
                // sound necessary condition: the cancellation of some leader of this key (from the
                // moment its caller began dropping it until its inner call was dropped) overlaps
                // this request's lifetime (client-side stamps around call and resolution)
                let explained = leader_cancels.values().any(|(s, e, k)| k == key && *e != u64::MAX && *s < *seq1 && *e > *seq0);
                if !explained {
                    rep.violate(
                        "C11:leader-cancelled-without-cancellation",
                        format!("threads: r{id} (key {key}) failed with LeaderCancelled but no leader of that key was dropped or panicked while the request was alive (cancellations enabled: {with_cancels})"),
                    );
                }
            }
            _ => {}
        }
    }
    rep.nontrivial = shared > 0;
    rep.sig = crate::prng::mix(sseed, shared);
    rep.count("thread_requests", results.len() as u64);
    rep.count("thread_inner_calls", serial_key.len() as u64);
    rep.count("thread_results_shared_with_waiters", shared);
    rep.count("thread_leader_cancelled_outcomes", cancelled_seen);
    rep.case = json!({"engine":"stress-threads","threads":threads,"keys":n_keys,"cancellations":with_cancels,"requests":results.len(),"inner_calls":serial_key.len(),"shared_results":shared,"leader_cancelled_outcomes":cancelled_seen});
    rep
}

// ---------------------------------------------------------------------------------------
// Engine "unwind-context": requests made and futures polled from a destructor that runs while the
// thread unwinds from an unrelated panic (clean-up code that flushes a client, a scope guard that
// drives a future one more step). `std::thread::panicking()` is true for all of that code although
// nothing in the coalesced call itself has panicked, so the call must be treated like any other:
// one inner call per key while it is in flight, and everybody who joined gets its result.
// Deterministic: manual polls with a no-op waker, inner calls completed by hand.
struct ManualInner {
    st: Arc<std::sync::Mutex<ManualState>>,
}
/// A response whose `Clone` can be made to panic (a user type with a fallible clone): the leader
/// clones its result for the waiters inside its own poll.
#[derive(Debug)]
struct Val(u64, bool);
impl Clone for Val {
    fn clone(&self) -> Self {
        if self.1 {
            panic!("scripted panic in the response's Clone (harness)");
        }
        Val(self.0, self.1)
    }
}
#[derive(Default)]
struct ManualState {
    calls: u64,
    in_flight: u64,
    max_in_flight: u64,
    senders: Vec<futures::channel::oneshot::Sender<Result<Val, String>>>,
}
impl Clone for ManualInner {
    fn clone(&self) -> Self {
        ManualInner { st: self.st.clone() }
    }
}
struct InFlight(Arc<std::sync::Mutex<ManualState>>);
impl Drop for InFlight {
    fn drop(&mut self) {
        self.0.lock().unwrap_or_else(|e| e.into_inner()).in_flight -= 1;
    }
}
impl tower::Service<u32> for ManualInner {
    type Response = Val;
    type Error = String;
    type Future = std::pin::Pin<Box<dyn std::future::Future<Output = Result<Val, String>> + Send>>;
    fn poll_ready(&mut self, _cx: &mut std::task::Context<'_>) -> std::task::Poll<Result<(), String>> {
        std::task::Poll::Ready(Ok(()))
    }
    fn call(&mut self, _key: u32) -> Self::Future {
        let (tx, rx) = futures::channel::oneshot::channel();
        {
            let mut s = self.st.lock().unwrap_or_else(|e| e.into_inner());
            s.calls += 1;
            s.in_flight += 1;
            s.max_in_flight = s.max_in_flight.max(s.in_flight);
            s.senders.push(tx);
        }
        let g = InFlight(self.st.clone());
        Box::pin(async move {
            let _g = g;
            rx.await.unwrap_or_else(|_| Err("inner dropped".to_string()))
        })
    }
}

/// Runs `f` from a destructor while the thread unwinds from an unrelated panic; a panic inside `f`
/// is caught there (a panic escaping a destructor during unwinding would abort the process).
fn during_unwind<R>(f: impl FnOnce() -> R) -> Result<R, String> {
    struct OnDrop<'a, R, F: FnOnce() -> R>(Option<F>, &'a mut Option<std::thread::Result<R>>);
    impl<R, F: FnOnce() -> R> Drop for OnDrop<'_, R, F> {
        fn drop(&mut self) {
            debug_assert!(std::thread::panicking());
            if let Some(f) = self.0.take() {
                *self.1 = Some(std::panic::catch_unwind(std::panic::AssertUnwindSafe(f)));
            }
        }
    }
    let mut slot: Option<std::thread::Result<R>> = None;
    let _ = std::panic::catch_unwind(std::panic::AssertUnwindSafe(|| {
        let _g = OnDrop(Some(f), &mut slot);
        std::panic::resume_unwind(Box::new("unrelated panic (harness)"));
    }));
    match slot {
        Some(Ok(r)) => Ok(r),
        Some(Err(_)) => Err(crate::sim::take_last_panic().unwrap_or_else(|| "panic".to_string())),
        None => Err("destructor did not run".to_string()),
    }
}

pub fn unwind_context(sseed: u64) -> Report {
    use std::future::Future;
    use std::task::{Context, Poll, Wake, Waker};
    use tower::Service;
    struct Noop;
    impl Wake for Noop {
        fn wake(self: Arc<Self>) {}
    }
    crate::sim::install_panic_hook();
    let mut rng = Prng::new(sseed);
    let mut rep = Report::default();
    let waker = Waker::from(Arc::new(Noop));
    let mut cx = Context::from_waker(&waker);
    let st = Arc::new(std::sync::Mutex::new(ManualState::default()));
    let mut svc = CoalesceLayer::new(|k: &u32| *k).layer(ManualInner { st: st.clone() });
    type Fut = std::pin::Pin<Box<dyn Future<Output = Result<Val, CoalesceError<String>>>>>;
    // which steps of the leader's life happen in the unwinding context
    let call_in_unwind = rng.chance(0.5);
    let first_poll_in_unwind = rng.chance(0.5);
    let later_poll_in_unwind = rng.chance(0.5) || (!call_in_unwind && !first_poll_in_unwind);
    let n_waiters = rng.range(1, 3) as usize;
    let ok = rng.chance(0.7);
    let key = rng.below(3) as u32;
    let show = |r: &Result<Val, CoalesceError<String>>| match r {
        Ok(v) => format!("Ok({})", v.0),
        Err(CoalesceError::Service(e)) => format!("Err({e})"),
        Err(CoalesceError::LeaderCancelled) => "LeaderCancelled".to_string(),
        Err(CoalesceError::RecvError) => "RecvError".to_string(),
    };
    let mut steps = vec![];
    let fail = |rep: &mut Report, sig: &str, msg: String| {
        if rep.violations.is_empty() {
            rep.violate(format!("C11:unwind-context:{sig}"), msg);
        }
    };
    let _ = svc.poll_ready(&mut cx);
    // leader: call()
    let mut leader: Fut = if call_in_unwind {
        steps.push("leader call() from a destructor during an unrelated unwind");
        match during_unwind(|| Box::pin(svc.call(key)) as Fut) {
            Ok(f) => f,
            Err(m) => {
                fail(&mut rep, "library-panic", format!("call() panicked: {m}"));
                return rep;
            }
        }
    } else {
        Box::pin(svc.call(key))
    };
    // leader: first poll (starts the inner call)
    let r = if first_poll_in_unwind {
        steps.push("leader first poll from a destructor during an unrelated unwind");
        during_unwind(|| leader.as_mut().poll(&mut cx).is_ready())
    } else {
        Ok(leader.as_mut().poll(&mut cx).is_ready())
    };
    match r {
        Ok(false) => {}
        Ok(true) => fail(&mut rep, "leader-resolved-early", "the leader resolved before its inner call was completed".to_string()),
        Err(m) => fail(&mut rep, "library-panic", format!("the leader's first poll panicked: {m}")),
    }
    // waiters join
    let mut waiters: Vec<Fut> = vec![];
    for _ in 0..n_waiters {
        let _ = svc.poll_ready(&mut cx);
        let mut f: Fut = Box::pin(svc.call(key));
        if f.as_mut().poll(&mut cx).is_ready() {
            fail(&mut rep, "waiter-resolved-early", format!("a request for key {key} resolved while the leader's inner call was still running"));
        }
        waiters.push(f);
    }
    if later_poll_in_unwind {
        steps.push("one more poll of the pending leader from a destructor during an unrelated unwind");
        match during_unwind(|| leader.as_mut().poll(&mut cx).is_ready()) {
            Ok(false) => {}
            Ok(true) => fail(&mut rep, "leader-resolved-early", "the leader resolved before its inner call was completed".to_string()),
            Err(m) => fail(&mut rep, "library-panic", format!("a poll of the pending leader panicked: {m}")),
        }
        // somebody who arrives now must still join the running call
        let _ = svc.poll_ready(&mut cx);
        let mut f: Fut = Box::pin(svc.call(key));
        if f.as_mut().poll(&mut cx).is_ready() {
            fail(&mut rep, "waiter-resolved-early", format!("a request for key {key} resolved while the leader's inner call was still running"));
        }
        waiters.push(f);
    }
    {
        let s = st.lock().unwrap_or_else(|e| e.into_inner());
        if s.calls != 1 || s.max_in_flight > 1 {
            fail(&mut rep, "second-inner-call-while-in-flight", format!("{} inner calls for key {key} ({} in flight at once) although the first was still running; steps: {steps:?}", s.calls, s.max_in_flight));
        }
    }
    // complete every inner call that exists with a distinct value: #1 -> 101, #2 -> 102 ...
    let clone_panics = ok && rng.chance(0.3);
    let senders: Vec<_> = std::mem::take(&mut st.lock().unwrap_or_else(|e| e.into_inner()).senders);
    for (i, tx) in senders.into_iter().enumerate() {
        let _ = tx.send(if ok { Ok(Val(101 + i as u64, clone_panics)) } else { Err(format!("e{}", 101 + i)) });
    }
    if clone_panics {
        // The leader's completing poll panics while it clones the result for its waiters. The caller
        // catches the panic and keeps the future: the key must be free at once — waiters learn that
        // their leader is gone, and a new request leads a fresh call.
        steps.push("the response's Clone panics inside the leader's completing poll; the caller catches it and keeps the future");
        let r = std::panic::catch_unwind(std::panic::AssertUnwindSafe(|| leader.as_mut().poll(&mut cx).is_ready()));
        if r.is_ok() {
            fail(&mut rep, "clone-panic-swallowed", "the leader's poll returned although cloning its result panicked".to_string());
        }
        let _ = crate::sim::take_last_panic();
        for (i, f) in waiters.iter_mut().enumerate() {
            let mut out = None;
            for _ in 0..16 {
                if let Poll::Ready(r) = f.as_mut().poll(&mut cx) {
                    out = Some(show(&r));
                    break;
                }
            }
            match out {
                None => fail(&mut rep, "caller-stuck", format!("waiter {} did not resolve within 16 polls after its leader's poll had panicked (the leader future is still held by its caller); steps: {steps:?}", i + 1)),
                Some(o) if o != "LeaderCancelled" => fail(&mut rep, "wrong-result", format!("waiter {} resolved with {o} after its leader's poll had panicked before handing out the result", i + 1)),
                _ => {}
            }
        }
        let before = st.lock().unwrap_or_else(|e| e.into_inner()).calls;
        let _ = svc.poll_ready(&mut cx);
        let mut f: Fut = Box::pin(svc.call(key));
        let _ = f.as_mut().poll(&mut cx);
        let after = st.lock().unwrap_or_else(|e| e.into_inner()).calls;
        if after != before + 1 {
            fail(&mut rep, "free-key-did-not-lead", format!("a request for key {key} made after the leader's poll had panicked did not start an inner call of its own ({before} -> {after} inner calls)"));
        }
        rep.count("leader_polls_panicking_in_clone", 1);
        rep.count("requests_made_or_polled_during_an_unwind", steps.len() as u64);
        rep.bucket(format!("call={} first_poll={} later_poll={} clone-panic", call_in_unwind, first_poll_in_unwind, later_poll_in_unwind));
        rep.nontrivial = true;
        rep.sig = crate::prng::mix(0xC10E, ((call_in_unwind as u64) << 2) | ((first_poll_in_unwind as u64) << 1) | later_poll_in_unwind as u64) ^ (n_waiters as u64);
        rep.case = json!({"engine": "unwind-context", "steps": steps, "waiters": waiters.len(), "clone_panics": true, "key": key});
        drop(f);
        return rep;
    }
    let expect = if ok { "Ok(101)".to_string() } else { "Err(e101)".to_string() };
    let mut results = vec![];
    for (name, f) in std::iter::once(("leader".to_string(), &mut leader)).chain(waiters.iter_mut().enumerate().map(|(i, f)| (format!("waiter {}", i + 1), f))) {
        let mut out = None;
        for _ in 0..16 {
            if let Poll::Ready(r) = f.as_mut().poll(&mut cx) {
                out = Some(show(&r));
                break;
            }
        }
        results.push((name, out));
    }
    for (name, out) in &results {
        match out {
            None => fail(&mut rep, "caller-stuck", format!("{name} did not resolve within 16 polls after the inner call completed; steps: {steps:?}")),
            Some(o) if *o != expect => fail(&mut rep, "wrong-result", format!("{name} resolved with {o}, the inner call it joined returned {expect}; steps: {steps:?}; all results: {results:?}")),
            _ => {}
        }
    }
    rep.count("requests_made_or_polled_during_an_unwind", steps.len() as u64);
    rep.count("waiters", waiters.len() as u64);
    rep.bucket(format!("call={} first_poll={} later_poll={}", call_in_unwind, first_poll_in_unwind, later_poll_in_unwind));
    rep.nontrivial = !steps.is_empty();
    rep.sig = crate::prng::mix(((call_in_unwind as u64) << 2) | ((first_poll_in_unwind as u64) << 1) | later_poll_in_unwind as u64, (n_waiters as u64) << 8 | (ok as u64) << 4 | key as u64);
    rep.case = json!({"engine": "unwind-context", "steps": steps, "waiters": waiters.len(), "inner_ok": ok, "key": key});
    rep
}
