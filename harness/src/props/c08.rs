//! C08: retry budget conservation, cap, and linearizability of concurrent try_withdraw/deposit.
//! The same workload + checkers run natively on all cores (E-STRESS) and under Miri's seeded
//! scheduler with weak-memory emulation (E-MIRI).

use crate::prng::{Fnv, Prng};
use crate::report::Report;
use serde_json::json;
use std::collections::HashSet;
use std::sync::atomic::{AtomicBool, AtomicU64, Ordering};
use std::sync::{Arc, Barrier};
use tower_resilience_retry::{RetryBudget, RetryBudgetBuilder};

#[derive(Clone, Debug)]
pub struct Cfg {
    pub aimd: bool,
    pub initial: u64,
    pub max: u64,
    pub min: u64,
    pub dep: u64,
    pub wd: u64,
    pub withdrawers: usize,
    pub depositors: usize,
    pub ops: usize,
    /// AIMD: multiplicative decrease factor of the cap (the builder's default is 0.5)
    pub factor: f64,
    /// AIMD: built directly (`AimdBudget::new`) so that the cap can be read after the round
    pub direct: bool,
}

pub fn gen(rng: &mut Prng, small: bool) -> Cfg {
    let aimd = rng.chance(0.35);
    let max = rng.range(1, 4);
    let (withdrawers, depositors, ops) = if small {
        (2, 2, 3)
    } else if rng.chance(0.15) {
        // deposit storm on a (nearly) full budget: the cap is what is under attack
        (rng.range(0, 1) as usize, rng.range(2, 8) as usize, *rng.pick(&[20usize, 100, 400]))
    } else {
        (rng.range(2, 8) as usize, rng.range(1, 4) as usize, *rng.pick(&[1usize, 2, 3, 50]))
    };
    if aimd {
        let direct = rng.chance(0.5);
        let factor = if direct { *rng.pick(&[0.5, 0.5, 0.25, 0.75, 0.9, 0.0, 1.0]) } else { 0.5 };
        // now and then a large cap that two grants drain: refusals then have a long way to push the cap down
        let (max, wd) = if direct && !small && rng.chance(0.4) { let m = *rng.pick(&[64u64, 1024]); (m, m / 2) } else { (max, rng.range(1, 2).min(max)) };
        Cfg { aimd, initial: max, max, min: rng.range(0, max.min(4)), dep: *rng.pick(&[1u64, 1, 2, 3]), wd, withdrawers, depositors, ops, factor, direct }
    } else {
        Cfg { aimd, initial: if rng.chance(0.15) { max + rng.range(1, 6) } else { rng.range(0, 3).min(max) }, max, min: 0, dep: 1, wd: 1, withdrawers, depositors, ops, factor: 0.5, direct: false }
    }
}

/// The budget plus, for directly built AIMD budgets, a handle through which the cap can be read.
pub fn build2(cfg: &Cfg) -> (Arc<dyn RetryBudget>, Option<Arc<tower_resilience_retry::AimdBudget>>) {
    if cfg.aimd && cfg.direct {
        let b = Arc::new(tower_resilience_retry::AimdBudget::new(cfg.min as usize, cfg.max as usize, cfg.dep as usize, cfg.wd as usize, cfg.factor));
        (b.clone() as Arc<dyn RetryBudget>, Some(b))
    } else {
        (build(cfg), None)
    }
}

pub fn build(cfg: &Cfg) -> Arc<dyn RetryBudget> {
    if cfg.aimd {
        RetryBudgetBuilder::new()
            .aimd()
            .min_budget(cfg.min as usize)
            .max_budget(cfg.max as usize)
            .deposit_amount(cfg.dep as usize)
            .withdraw_amount(cfg.wd as usize)
            .build()
    } else {
        RetryBudgetBuilder::new().token_bucket().max_tokens(cfg.max as usize).initial_tokens(cfg.initial as usize).build()
    }
}

#[derive(Clone, Copy, Debug, PartialEq, Eq)]
pub enum Kind {
    Withdraw,
    Deposit,
}

#[derive(Clone, Copy, Debug)]
pub struct Op {
    pub thread: usize,
    pub kind: Kind,
    pub call: u64,
    pub ret: u64,
    pub granted: bool,
}

pub struct History {
    pub ops: Vec<Op>,
    pub final_balance: u64,
    pub max_sampled: u64,
    /// AIMD, directly built: the cap (current maximum) read after the round
    pub cap_after: Option<u64>,
}

/// One concurrent round: every thread records call/return stamps from one global counter at
/// the client boundary.
pub fn run_round(cfg: &Cfg, budget: Arc<dyn RetryBudget>, yield_between: bool) -> History {
    let clock = Arc::new(AtomicU64::new(1));
    let balance_before = budget.balance() as u64;
    let n = cfg.withdrawers + cfg.depositors;
    let barrier = Arc::new(Barrier::new(n + 1));
    let stop = Arc::new(AtomicBool::new(false));
    let mut hs = vec![];
    for t in 0..n {
        let b = budget.clone();
        let clock = clock.clone();
        let barrier = barrier.clone();
        let kind = if t < cfg.withdrawers { Kind::Withdraw } else { Kind::Deposit };
        let ops = cfg.ops;
        hs.push(std::thread::spawn(move || {
            let mut v = Vec::with_capacity(ops);
            barrier.wait();
            for _ in 0..ops {
                let call = clock.fetch_add(1, Ordering::SeqCst);
                let granted = match kind {
                    Kind::Withdraw => b.try_withdraw(),
                    Kind::Deposit => {
                        b.deposit();
                        true
                    }
                };
                let ret = clock.fetch_add(1, Ordering::SeqCst);
                v.push(Op { thread: t, kind, call, ret, granted });
                if yield_between {
                    std::thread::yield_now();
                }
            }
            v
        }));
    }
    // sampler: the balance may never exceed the configured maximum
    let sampler = {
        let b = budget.clone();
        let stop = stop.clone();
        let barrier = barrier.clone();
        std::thread::spawn(move || {
            let mut m = 0u64;
            barrier.wait();
            loop {
                m = m.max(b.balance() as u64);
                if stop.load(Ordering::SeqCst) {
                    break;
                }
                std::thread::yield_now();
            }
            m
        })
    };
    let mut ops = vec![];
    for h in hs {
        ops.extend(h.join().unwrap());
    }
    stop.store(true, Ordering::SeqCst);
    let max_sampled = sampler.join().unwrap().max(balance_before);
    ops.sort_by_key(|o| o.call);
    History { ops, final_balance: budget.balance() as u64, max_sampled, cap_after: None }
}

/// The cap of an AIMD budget moves down by a factor at every refused withdrawal and up by one at
/// every deposit. Whatever the serial order of `f` refusals and `s` deposits, starting from `cap0`
/// it ends between "all deposits first" and "all refusals first" (both maps are monotone and a
/// decrease applied later never leaves more): a cap outside that range means updates were lost.
pub fn cap_range(cfg: &Cfg, cap0: u64, f: u64, s: u64) -> (u64, u64) {
    let g = |x: u64| (((x as f64) * cfg.factor) as u64).min(x).max(cfg.min);
    let h = |x: u64| (x + 1).min(cfg.max);
    let rep = |mut x: u64, n: u64, m: &dyn Fn(u64) -> u64| {
        for _ in 0..n {
            let y = m(x);
            if y == x {
                break;
            }
            x = y;
        }
        x
    };
    let lo = rep(rep(cap0, s, &h), f, &g);
    let hi = rep(rep(cap0, f, &g), s, &h);
    (lo.min(hi), hi.max(lo))
}

/// Wing–Gong style search: is there a sequential order, consistent with real-time order, that
/// explains every result and the final balance (and, where it was read, the final cap)?
/// For the AIMD budget the sequential machine is (balance, cap): a refused withdrawal multiplies
/// the cap by the decrease factor (floor `min`), a deposit credits up to the cap and then raises the
/// cap by one (ceiling `max`). With `strict == false` the cap applied by a deposit may instead be
/// any value in [min, max] (the model used before the budget's operations were made atomic as a
/// whole; kept to tell "the compound operation is not atomic" from "the balance itself is wrong").
pub fn linearizable(cfg: &Cfg, h: &History, node_cap: u64, strict: bool) -> Option<bool> {
    let n = h.ops.len();
    if n > 20 {
        return None;
    }
    let mut seen: HashSet<(u32, u64, u64)> = HashSet::new();
    let mut nodes = 0u64;
    #[allow(clippy::too_many_arguments)]
    fn go(cfg: &Cfg, h: &History, done: u32, bal: u64, cap_now: u64, strict: bool, seen: &mut HashSet<(u32, u64, u64)>, nodes: &mut u64, cap: u64) -> Option<bool> {
        let n = h.ops.len();
        if done == (1u32 << n) - 1 {
            return Some(bal == h.final_balance && (!strict || !cfg.aimd || h.cap_after.map_or(true, |c| c == cap_now)));
        }
        if !seen.insert((done, bal, cap_now)) {
            return Some(false);
        }
        *nodes += 1;
        if *nodes > cap {
            return None;
        }
        let dec = |x: u64| (((x as f64) * cfg.factor) as u64).min(x).max(cfg.min);
        let inc = |x: u64| (x + 1).min(cfg.max);
        // an op may go next iff no other pending op returned before it was called
        let min_ret = (0..n).filter(|i| done & (1 << i) == 0).map(|i| h.ops[i].ret).min().unwrap();
        for i in 0..n {
            if done & (1 << i) != 0 || h.ops[i].call > min_ret {
                continue;
            }
            let o = &h.ops[i];
            let nexts: Vec<(u64, u64)> = match o.kind {
                Kind::Withdraw => {
                    let ok = bal >= cfg.wd;
                    if ok != o.granted {
                        continue;
                    }
                    vec![if ok { (bal - cfg.wd, cap_now) } else { (bal, if cfg.aimd && strict { dec(cap_now) } else { cap_now }) }]
                }
                Kind::Deposit => {
                    if cfg.aimd && strict {
                        vec![((bal + cfg.dep).min(cap_now), inc(cap_now))]
                    } else if cfg.aimd {
                        let mut v: Vec<(u64, u64)> = (cfg.min..=cfg.max).map(|c| ((bal + cfg.dep).min(c), cap_now)).collect();
                        v.sort();
                        v.dedup();
                        v
                    } else {
                        vec![((bal + cfg.dep).min(cfg.max), cap_now)]
                    }
                }
            };
            for (nb, nc) in nexts {
                match go(cfg, h, done | (1 << i), nb, nc, strict, seen, nodes, cap) {
                    Some(true) => return Some(true),
                    None => return None,
                    _ => {}
                }
            }
        }
        Some(false)
    }
    // an initial balance above the maximum is capped: the balance never exceeds the maximum
    go(cfg, h, 0, cfg.initial.min(cfg.max), cfg.max.max(cfg.min), strict, &mut seen, &mut nodes, node_cap)
}

pub fn render(h: &History) -> Vec<String> {
    h.ops.iter().map(|o| format!("[{}..{}] t{} {:?} -> {}", o.call, o.ret, o.thread, o.kind, o.granted)).collect()
}

/// Judges one history; returns (violations as (signature, message), overlapping?).
pub fn judge(cfg: &Cfg, h: &History, rep: &mut Report) -> bool {
    let kind = if cfg.aimd { "aimd" } else { "token" };
    let grants = h.ops.iter().filter(|o| o.kind == Kind::Withdraw && o.granted).count() as u64;
    let deposits = h.ops.iter().filter(|o| o.kind == Kind::Deposit).count() as u64;
    let funded = cfg.initial + deposits * cfg.dep;
    if grants * cfg.wd + h.final_balance > funded {
        rep.violate(
            format!("C08:{kind}:over-granted"),
            format!(
                "{} grants x {} + final balance {} = {} exceeds initial {} + {} deposits x {} = {}; cfg {:?}; history {:?}",
                grants, cfg.wd, h.final_balance, grants * cfg.wd + h.final_balance, cfg.initial, deposits, cfg.dep, funded, cfg,
                if h.ops.len() <= 24 { render(h) } else { vec![format!("{} ops", h.ops.len())] }
            ),
        );
    }
    if h.final_balance > cfg.max || h.max_sampled > cfg.max {
        rep.violate(format!("C08:{kind}:balance-above-max"), format!("balance {} (sampled max {}) exceeds maximum {}; cfg {:?}", h.final_balance, h.max_sampled, cfg.max, cfg));
    }
    if let Some(cap) = h.cap_after {
        let refused = h.ops.iter().filter(|o| o.kind == Kind::Withdraw && !o.granted).count() as u64;
        let (lo, hi) = cap_range(cfg, cfg.max.max(cfg.min), refused, deposits);
        rep.count("aimd_caps_checked", 1);
        if cap < lo || cap > hi {
            rep.violate(
                "C08:aimd:cap-not-serializable",
                format!("after {refused} refused withdrawals and {deposits} deposits the current maximum is {cap}; every serial order of them ends in [{lo}, {hi}] (start {}, factor {}, min {}): updates of the cap were lost; cfg {:?}", cfg.max, cfg.factor, cfg.min, cfg),
            );
        }
    }
    // overlap: some deposit overlaps another operation in real time
    let overlapping = h.ops.iter().any(|d| d.kind == Kind::Deposit && h.ops.iter().any(|o| o.thread != d.thread && o.call < d.ret && d.call < o.ret));
    if h.ops.len() <= 14 {
        match linearizable(cfg, h, 2_000_000, true) {
            Some(true) => rep.count("histories_linearizable", 1),
            Some(false) => {
                // which part fails: the balance alone (any cap allowed), or only the compound (balance, cap) machine
                let relaxed = if cfg.aimd { linearizable(cfg, h, 2_000_000, false) } else { Some(false) };
                let sig = if relaxed == Some(true) { format!("C08:{kind}:compound-operation-not-atomic") } else { format!("C08:{kind}:not-linearizable") };
                rep.violate(
                    sig,
                    format!(
                        "no sequential order of these operations explains their results, the final balance {}{} (initial {}){}; cfg {:?}; history {:?}",
                        h.final_balance,
                        h.cap_after.map(|c| format!(" and the final cap {c}")).unwrap_or_default(),
                        cfg.initial,
                        if relaxed == Some(true) { " — the balance alone would be explained if a deposit could be capped at a maximum that was no longer current" } else { "" },
                        cfg,
                        render(h)
                    ),
                )
            }
            None => rep.count("linearizability_checks_timed_out", 1),
        }
    }
    overlapping
}

fn history_sig(h: &History) -> u64 {
    // the call/return order (relabelled densely) + results
    let mut stamps: Vec<(u64, usize, bool)> = vec![];
    for (i, o) in h.ops.iter().enumerate() {
        stamps.push((o.call, i, true));
        stamps.push((o.ret, i, false));
    }
    stamps.sort();
    let mut f = Fnv::default();
    for (_, i, c) in stamps {
        let o = &h.ops[i];
        f.add((o.thread as u64) << 3 | (c as u64) << 2 | (o.granted as u64) << 1 | (o.kind == Kind::Deposit) as u64);
    }
    f.add(h.final_balance);
    f.0
}

/// Extreme but valid sizes: the budget must be constructible and keep its balance within the maximum.
fn extreme(rng: &mut Prng, rep: &mut Report) {
    let big = [usize::MAX, usize::MAX / 1000, usize::MAX / 1000 + 1, 1usize << 61, (1usize << 54) + 1, u32::MAX as usize];
    let max = *rng.pick(&big);
    let initial = *rng.pick(&[0usize, 1, max, usize::MAX, max / 2]);
    let aimd = rng.chance(0.3);
    crate::sim::install_panic_hook();
    let r = std::panic::catch_unwind(|| {
        let b: Arc<dyn RetryBudget> = if aimd {
            RetryBudgetBuilder::new().aimd().min_budget(0).max_budget(max).build()
        } else {
            RetryBudgetBuilder::new().token_bucket().max_tokens(max).initial_tokens(initial).build()
        };
        let b0 = b.balance();
        let g = b.try_withdraw();
        b.deposit();
        (b0, g, b.balance())
    });
    let kind = if aimd { "aimd" } else { "token" };
    match r {
        Err(_) => rep.violate(
            format!("C08:{kind}:panic-at-extreme-config"),
            format!("budget with max {max} and initial {initial} panicked: {}", crate::sim::take_last_panic().unwrap_or_default()),
        ),
        Ok((b0, granted, b1)) => {
            if b0 > max || b1 > max {
                rep.violate(format!("C08:{kind}:balance-above-max"), format!("budget with max {max}, initial {initial}: balance {b0} at construction, {b1} after one withdraw and one deposit"));
            }
            if granted && b0 == 0 {
                rep.violate(format!("C08:{kind}:over-granted"), format!("budget with max {max}, initial {initial}: a retry was granted from an empty budget"));
            }
            if !aimd && initial > 0 && initial <= max && !granted {
                rep.count("extreme_budget_refused_although_funded", 1);
            }
        }
    }
    rep.count("extreme_configurations", 1);
}

/// Native stress: `rounds` small rounds (linearizability + conservation) on real threads.
pub fn stress(sseed: u64, rounds: u64) -> Report {
    let mut rng = Prng::new(sseed);
    let mut rep = Report::default();
    for _ in 0..8 {
        extreme(&mut rng, &mut rep);
    }
    let mut sigs: HashSet<u64> = HashSet::new();
    let mut overlapping = 0u64;
    let mut last_cfg = None;
    for _ in 0..rounds {
        let cfg = gen(&mut rng, false);
        let (b, probe) = build2(&cfg);
        let mut h = run_round(&cfg, b, false);
        h.cap_after = probe.map(|p| p.current_max() as u64);
        if judge(&cfg, &h, &mut rep) {
            overlapping += 1;
            sigs.insert(history_sig(&h));
        }
        rep.count("ops", h.ops.len() as u64);
        last_cfg = Some((cfg, h));
        if rep.violations.len() > 20 {
            break;
        }
    }
    rep.count("rounds", rounds);
    rep.count("rounds_with_overlapping_deposit", overlapping);
    rep.count("distinct_overlapping_histories", sigs.len() as u64);
    rep.nontrivial = overlapping > 0;
    let mut f = Fnv::default();
    for s in &sigs {
        f.0 ^= *s;
    }
    rep.sig = f.0 ^ sseed;
    rep.more_sigs = sigs.iter().cloned().collect();
    if let Some((cfg, h)) = last_cfg {
        rep.case = json!({"engine":"stress","rounds":rounds,"overlapping_rounds":overlapping,"distinct_histories":sigs.len(),"last_round":{"cfg":format!("{cfg:?}"),"history":render(&h).into_iter().take(24).collect::<Vec<_>>(),"final_balance":h.final_balance}});
    }
    rep
}

/// One small history under Miri (the Miri seed decides the interleaving).
pub fn miri_scenario(sseed: u64) -> Report {
    let mut rng = Prng::new(sseed);
    let cfg = gen(&mut rng, true);
    let mut rep = Report::default();
    let (b, probe) = build2(&cfg);
    let mut h = run_round(&cfg, b, false);
    h.cap_after = probe.map(|p| p.current_max() as u64);
    let ov = judge(&cfg, &h, &mut rep);
    rep.nontrivial = ov;
    rep.sig = history_sig(&h);
    rep.case = json!({"cfg": format!("{cfg:?}"), "history": render(&h), "final_balance": h.final_balance});
    rep
}
