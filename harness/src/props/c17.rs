//! C17: fallback never replaces a success and handles exactly the errors it should.

use crate::actors::caller;
use crate::prng::{Fnv, Prng};
use crate::report::{Report, Tier};
use crate::sim::run_sim;
use crate::world::{Ev, Lat, Out, Outcome, PErr, Rec, Req, Resp, Step, World};
use serde_json::json;
use std::collections::HashMap;
use std::sync::Arc;
use tower::Layer;
use tower_resilience_fallback::{FallbackError, FallbackLayer};

#[derive(Clone, Copy, Debug, PartialEq, Eq)]
pub enum Strat {
    Value,
    ValueFn,
    FromError,
    FromRequestError,
    Service,
    Exception,
}
const STRATS: [Strat; 6] = [Strat::Value, Strat::ValueFn, Strat::FromError, Strat::FromRequestError, Strat::Service, Strat::Exception];

#[derive(Clone, Debug)]
pub struct Cfg {
    strat: Strat,
    /// 0 none (shortcut constructor), 1 none (builder), 2 accepts everything, 3 accepts class 1 only
    pred: u8,
    backup_ok: bool,
    /// builder order: handle() before the strategy method (only meaningful with a predicate)
    pred_first: bool,
    /// an on_event listener is registered (must not change anything)
    listener: bool,
    /// per request: inner outcome 0 ok / 1 err class 1 / 2 err class 2, latency us, payload
    reqs: Vec<(u8, u64, u64)>,
}

pub const GRID: usize = 6 * 4 * 2 * 2;

pub fn cfg_for(index: usize, rng: &mut Prng) -> Cfg {
    let strat = STRATS[index % 6];
    let pred = ((index / 6) % 4) as u8;
    let backup_ok = (index / 24) % 2 == 0;
    let pred_first = (index / 48) % 2 == 1;
    // every inner outcome appears in every configuration, plus random extras
    let mut reqs = vec![(0u8, 0u64, rng.next()), (1, 0, rng.next()), (2, 0, rng.next())];
    for _ in 0..rng.range(0, 4) {
        reqs.push((rng.below(3) as u8, *rng.pick(&[0u64, 1000, 5000]), rng.next()));
    }
    Cfg { strat, pred, backup_ok, pred_first, listener: pred != 0 && rng.chance(0.5), reqs }
}

fn map_one(e: &FallbackError<PErr>) -> Outcome {
    match e {
        FallbackError::Inner(p) => Outcome::inner(p),
        FallbackError::FallbackFailed(p) => Outcome::layer_with("FallbackFailed", p),
    }
}

/// What the caller sees — directly and through a clone of the error (shared futures, coalescing
/// and retry policies hand out clones): both must be the same thing.
fn map_err(e: &FallbackError<PErr>) -> Outcome {
    let (direct, cloned) = (map_one(e), map_one(&e.clone()));
    if direct != cloned {
        return Outcome::layer(format!("a clone of the error differs: {} vs {}", direct.short(), cloned.short()));
    }
    direct
}

const VALUE: Resp = Resp { serial: 900_001, req_id: 0, payload: 42, src: 10 };

pub fn run(cfg: &Cfg, seed: u64) -> Arc<World> {
    let (w, _stats, ()) = run_sim(seed, |sim| {
        let w = sim.w.clone();
        let wl = w.clone();
        let note = move |what: &str, a: u64, b: u64| {
            wl.log(Ev::Listener { name: what.to_string(), a, b });
        };
        let backup_ok = cfg.backup_ok;
        LISTEN.with(|l| l.set(cfg.listener));
        let layer: FallbackLayer<Req, Resp, PErr> = {
            let shortcut = cfg.pred == 0;
            match cfg.strat {
                Strat::Value => {
                    if shortcut { FallbackLayer::value(VALUE) } else { ordered(cfg.pred, cfg.pred_first, |b| b.value(VALUE)).build() }
                }
                Strat::ValueFn => {
                    let n = note.clone();
                    let f = move || {
                        n("strategy:value_fn", 0, 0);
                        Resp { serial: 900_002, req_id: 0, payload: 43, src: 11 }
                    };
                    if shortcut { FallbackLayer::value_fn(f) } else { ordered(cfg.pred, cfg.pred_first, |b| b.value_fn(f)).build() }
                }
                Strat::FromError => {
                    let n = note.clone();
                    let f = move |e: &PErr| {
                        n("strategy:from_error", e.req_id, e.serial);
                        Resp { serial: e.serial, req_id: e.req_id, payload: e.class as u64 * 1000, src: 12 }
                    };
                    if shortcut { FallbackLayer::from_error(f) } else { ordered(cfg.pred, cfg.pred_first, |b| b.from_error(f)).build() }
                }
                Strat::FromRequestError => {
                    let n = note.clone();
                    let f = move |r: &Req, e: &PErr| {
                        n("strategy:from_request_error", r.id, e.serial);
                        Resp { serial: e.serial, req_id: r.id, payload: r.payload ^ e.class as u64, src: 13 }
                    };
                    if shortcut { FallbackLayer::from_request_error(f) } else { ordered(cfg.pred, cfg.pred_first, |b| b.from_request_error(f)).build() }
                }
                Strat::Service => {
                    let n = note.clone();
                    let f = move |r: Req| {
                        let n = n.clone();
                        async move {
                            n("strategy:backup", r.id, r.payload);
                            if backup_ok {
                                Ok(Resp { serial: 700_000 + r.id, req_id: r.id, payload: r.payload, src: 14 })
                            } else {
                                Err(PErr { serial: 800_000 + r.id, req_id: r.id, class: 9 })
                            }
                        }
                    };
                    if shortcut { FallbackLayer::service(f) } else { ordered(cfg.pred, cfg.pred_first, |b| b.service(f)).build() }
                }
                Strat::Exception => {
                    let n = note.clone();
                    let f = move |e: PErr| {
                        n("strategy:exception", e.req_id, e.serial);
                        PErr { serial: e.serial, req_id: e.req_id, class: e.class + 100 }
                    };
                    if shortcut { FallbackLayer::exception(f) } else { ordered(cfg.pred, cfg.pred_first, |b| b.exception(f)).build() }
                }
            }
        };
        let svc = layer.layer(w.probe(1));
        for (i, (o, lat, payload)) in cfg.reqs.iter().enumerate() {
            let mut req = Req::new(i as u64 + 1, 0, vec![Step { lat: Lat::Us(*lat), out: match o { 0 => Out::Ok, 1 => Out::Err(1), _ => Out::Err(2) } }]);
            req.payload = *payload;
            let a = sim.actor(req.id, caller(w.clone(), svc.clone(), req, false, map_err));
            sim.start_at(i as u64 * 500, a);
        }
        sim.horizon = 10_000_000;
    });
    w
}

type B = tower_resilience_fallback::FallbackConfigBuilder<Req, Resp, PErr>;

thread_local! {
    /// whether the configuration being built registers an event listener
    static LISTEN: std::cell::Cell<bool> = const { std::cell::Cell::new(false) };
}

/// builder with the predicate applied before (`first`) or after the strategy method `f`
fn ordered(pred: u8, first: bool, f: impl FnOnce(B) -> B) -> B {
    let listen = LISTEN.with(|l| l.get());
    let f = move |b: B| {
        let b = f(b);
        if listen { b.on_event(|_e| {}) } else { b }
    };
    if first {
        f(with_pred(FallbackLayer::builder(), pred))
    } else {
        with_pred(f(FallbackLayer::builder()), pred)
    }
}

fn with_pred(b: tower_resilience_fallback::FallbackConfigBuilder<Req, Resp, PErr>, pred: u8) -> tower_resilience_fallback::FallbackConfigBuilder<Req, Resp, PErr> {
    match pred {
        2 => b.handle(|_e: &PErr| true),
        3 => b.handle(|e: &PErr| e.class == 1),
        _ => b,
    }
}

pub fn scenario(sseed: u64, _tier: Tier, index: Option<usize>) -> Report {
    let mut rng = Prng::new(sseed);
    let idx = index.unwrap_or((sseed % 1_000_003) as usize % GRID);
    let cfg = cfg_for(idx, &mut rng);
    let w = run(&cfg, rng.next());
    let log = w.take_log();
    let mut rep = judge(&cfg, &log);
    let mut s = Fnv::default();
    s.add(idx as u64);
    for (o, l, p) in &cfg.reqs {
        s.add(*o as u64);
        s.add(*l);
        s.add(*p);
    }
    rep.sig = s.0;
    rep.case = json!({"cfg": format!("{cfg:?}"), "grid_index": idx});
    rep.log = log;
    rep
}

pub fn judge(cfg: &Cfg, log: &[Rec]) -> Report {
    let mut rep = Report::default();
    let name = format!("{:?}", cfg.strat).to_lowercase();
    let mut inner: HashMap<u64, Vec<(u64, u64)>> = HashMap::new(); // req -> (serial, payload seen by inner)
    let mut strat_calls: HashMap<u64, Vec<(String, u64)>> = HashMap::new();
    let mut anon_strat_calls = 0u64;
    let mut resolved: HashMap<u64, Outcome> = HashMap::new();
    for r in log {
        match &r.ev {
            Ev::InnerEnter { req, serial, payload, .. } => inner.entry(*req).or_default().push((*serial, *payload)),
            Ev::Listener { name, a, b } if name.starts_with("strategy:") => {
                if name == "strategy:value_fn" {
                    anon_strat_calls += 1;
                } else {
                    strat_calls.entry(*a).or_default().push((name.clone(), *b));
                }
            }
            Ev::Resolve { req, out } => {
                resolved.insert(*req, out.clone());
            }
            Ev::ActorPanic { req, msg } => rep.violate(format!("C17:{name}:library-panic"), format!("r{req}: {msg}")),
            _ => {}
        }
    }
    let mut expected_valuefn = 0u64;
    let mut invoked = false;
    for (i, (o, _lat, payload)) in cfg.reqs.iter().enumerate() {
        let id = i as u64 + 1;
        let calls = inner.get(&id).cloned().unwrap_or_default();
        if calls.len() != 1 {
            rep.violate(format!("C17:{name}:inner-calls"), format!("r{id}: inner service called {} times", calls.len()));
            continue;
        }
        let (serial, seen_payload) = calls[0];
        if seen_payload != *payload {
            rep.violate(format!("C17:{name}:request-altered"), format!("r{id}: inner service saw payload {seen_payload}, sent {payload}"));
        }
        let class = *o;
        let handled = class != 0 && (cfg.pred <= 2 || class == 1);
        let expected = if class == 0 {
            Outcome::Ok { serial, req_id: id, payload: *payload, src: 0 }
        } else if !handled {
            Outcome::Inner { serial, req_id: id, class }
        } else {
            match cfg.strat {
                Strat::Value => Outcome::ok(&VALUE),
                Strat::ValueFn => Outcome::Ok { serial: 900_002, req_id: 0, payload: 43, src: 11 },
                Strat::FromError => Outcome::Ok { serial, req_id: id, payload: class as u64 * 1000, src: 12 },
                Strat::FromRequestError => Outcome::Ok { serial, req_id: id, payload: *payload ^ class as u64, src: 13 },
                Strat::Service => {
                    if cfg.backup_ok {
                        Outcome::Ok { serial: 700_000 + id, req_id: id, payload: *payload, src: 14 }
                    } else {
                        Outcome::Layer { kind: "FallbackFailed".into(), inner: Some((800_000 + id, 9)) }
                    }
                }
                Strat::Exception => Outcome::Inner { serial, req_id: id, class: class + 100 },
            }
        };
        match resolved.get(&id) {
            Some(out) if *out == expected => {}
            other => rep.violate(
                format!("C17:{name}:wrong-outcome"),
                format!("r{id}: inner outcome class {class}, predicate mode {}, strategy {:?}: expected {}, caller saw {:?}", cfg.pred, cfg.strat, expected.short(), other.map(|o| o.short())),
            ),
        }
        // the strategy runs exactly when the error is handled (value has no closure to observe)
        let sc = strat_calls.get(&id).cloned().unwrap_or_default();
        let expect_calls = match cfg.strat {
            Strat::Value | Strat::ValueFn => 0,
            _ => handled as usize,
        };
        if cfg.strat == Strat::ValueFn && handled {
            expected_valuefn += 1;
        }
        if sc.len() != expect_calls {
            rep.violate(format!("C17:{name}:strategy-invocations"), format!("r{id}: inner outcome class {class} (handled={handled}): strategy closure ran {} times, expected {expect_calls}: {sc:?}", sc.len()));
        }
        if cfg.strat == Strat::Service {
            if let Some((_, p)) = sc.first() {
                if p != payload {
                    rep.violate(format!("C17:{name}:backup-got-other-request"), format!("r{id}: backup service received payload {p}, original {payload}"));
                }
            }
        }
        if handled {
            invoked = true;
        }
    }
    if cfg.strat == Strat::ValueFn && anon_strat_calls != expected_valuefn {
        rep.violate(format!("C17:{name}:strategy-invocations"), format!("value function ran {anon_strat_calls} times, expected {expected_valuefn}"));
    }
    rep.count("requests", cfg.reqs.len() as u64);
    rep.bucket(format!("{:?} pred={} backup_ok={} pred_first={}", cfg.strat, cfg.pred, cfg.backup_ok, cfg.pred_first));
    if cfg.listener {
        rep.count("configurations_with_listener", 1);
    }
    rep.nontrivial = invoked;
    rep
}
