//! C02 (rate limiter window bound) and C15 (decision within timeout, rejected calls go nowhere).

use crate::actors::{boxed, caller, do_call};
use crate::prng::{Fnv, Prng};
use crate::report::{Report, Tier};
use crate::sim::{run_sim, What};
use crate::world::{Ev, Lat, Outcome, PErr, Rec, Req, Step};
use serde_json::json;
use std::collections::HashMap;
use std::time::Duration;
use tower::Layer;
use tower_resilience_ratelimiter::{RateLimiterLayer, RateLimiterServiceError, WindowType};

#[derive(Clone, Copy, Debug, PartialEq, Eq)]
pub enum Win {
    Fixed,
    Log,
    Counter,
}

#[derive(Clone, Debug)]
struct Caller {
    arrive_us: u64,
    lat_ms: u64,
    pause: bool,
    drop_at_us: Option<u64>,
    group: u32,
}

#[derive(Clone, Debug)]
struct SeqStep {
    gap_us: u64,
    /// extra sub-millisecond part of the gap (the paused clock is advanced by hand: timers only
    /// have millisecond resolution)
    sub_us: u64,
    burst: u32,
}

#[derive(Clone, Debug)]
pub struct Cfg {
    preset: &'static str,
    win: Win,
    l: usize,
    p_us: u64,
    timeout_us: u64,
    groups: u32,
    callers: Vec<Caller>,
    /// sequential driver (shape 2): exact idle gaps measured from the previous decision
    seq: Vec<SeqStep>,
}

pub fn gen(rng: &mut Prng) -> Cfg {
    if rng.chance(0.004) {
        // an extreme but valid rate: thousands of permits per microsecond-scale period, bursts
        // exactly on the window boundaries, no waiting
        let l = *rng.pick(&[1000usize, 3000]);
        let p_us = *rng.pick(&[1u64, 2]);
        let win = *rng.pick(&[Win::Counter, Win::Counter, Win::Fixed, Win::Log]);
        let seq = vec![
            SeqStep { gap_us: 0, sub_us: 0, burst: l as u32 },
            SeqStep { gap_us: 0, sub_us: p_us, burst: 2 * l as u32 },
            SeqStep { gap_us: 0, sub_us: p_us, burst: l as u32 + 7 },
        ];
        return Cfg { preset: "builder", win, l, p_us, timeout_us: 0, groups: 1, callers: vec![], seq };
    }
    let roll = rng.below(100);
    let (preset, win, l, p_us, timeout_us): (&'static str, Win, usize, u64, u64) = if roll < 4 {
        ("per_second", Win::Fixed, *rng.pick(&[1usize, 2, 5]), 1_000_000, 100_000)
    } else if roll < 7 {
        ("per_minute", Win::Fixed, *rng.pick(&[1usize, 3]), 60_000_000, 1_000_000)
    } else if roll < 10 {
        ("burst", Win::Counter, 3, 1_000_000, 100_000) // burst(2, 1)
    } else if roll < 11 {
        ("default", Win::Fixed, 50, 1_000_000, 100_000)
    } else {
        let win = *rng.pick(&[Win::Fixed, Win::Log, Win::Counter]);
        let l = *rng.pick(&[1usize, 2, 2, 3, 5]);
        let p = *rng.pick(&[20_000u64, 50_000, 100_000]);
        let t = *rng.pick(&[0, p / 2, p, p + 1000, p * 5 / 2, 1000]);
        ("builder", win, l, p, t)
    };
    // extreme-but-valid values: a window that never refreshes, "wait as long as it takes"
    let (p_us, timeout_us) = if preset == "builder" && rng.chance(0.05) {
        (*rng.pick(&[u64::MAX, u64::MAX / 2]), *rng.pick(&[0u64, 10_000, 1_000_000]))
    } else if preset == "builder" && rng.chance(0.04) {
        (p_us, u64::MAX)
    } else {
        (p_us, timeout_us)
    };
    let groups = if rng.chance(0.1) { 2 } else { 1 };
    let mut callers = vec![];
    let mut seq = vec![];
    // arrival grids are laid out on a finite stand-in when the period is astronomically long
    let p = if p_us >= u64::MAX / 2 { 50_000 } else { p_us };
    if rng.chance(0.35) {
        // shape 2: sequential driver with exact gaps
        let steps = rng.range(2, 7);
        for _ in 0..steps {
            let gap = *rng.pick(&[0, 1000, p / 2, p - 1000, p, p + 1000, 2 * p - 1000, 2 * p, 2 * p + 1000, 3 * p, 5 * p + p / 2, 8 * p]);
            let burst = if rng.chance(0.2) { rng.range(2 * l as u64 + 1, 3 * l as u64 + 3) as u32 } else { rng.range(1, (l as u64 + 2).min(8)) as u32 };
            let sub_us = if rng.chance(0.3) { *rng.pick(&[100u64, 400, 600, 900]) } else { 0 };
            seq.push(SeqStep { gap_us: gap, sub_us, burst });
        }
    } else {
        let n = if preset == "default" { rng.range(48, 56) } else { rng.range(1, 16) };
        let anchors = [0, 0, 0, p / 2, p - 1000, p, p, p + 1000, 2 * p - 1000, 2 * p, 2 * p + 1000, 3 * p, 4 * p, 6 * p, 6 * p];
        for _ in 0..n {
            let arrive = if rng.chance(0.8) { *rng.pick(&anchors) } else { rng.below(4 * p / 1000) * 1000 };
            let drop_at = if rng.chance(0.15) { Some(arrive + *rng.pick(&[0, 1000, p / 2, p - 1000, p])) } else { None };
            callers.push(Caller {
                arrive_us: arrive,
                lat_ms: if rng.chance(0.7) { 0 } else { rng.range(1, 10) },
                pause: rng.chance(0.25),
                drop_at_us: drop_at,
                group: 1 + rng.below(groups as u64) as u32,
            });
        }
    }
    Cfg { preset, win, l, p_us, timeout_us, groups, callers, seq }
}

fn map_err(e: &RateLimiterServiceError<PErr>) -> Outcome {
    match e {
        RateLimiterServiceError::Inner(p) => Outcome::inner(p),
        RateLimiterServiceError::RateLimited => Outcome::layer("RateLimited"),
    }
}

/// u64::MAX stands for Duration::MAX, u64::MAX / 2 for that many seconds
fn big_dur(us: u64) -> Duration {
    if us == u64::MAX {
        Duration::MAX
    } else if us == u64::MAX / 2 {
        Duration::from_secs(u64::MAX / 2)
    } else {
        Duration::from_micros(us)
    }
}

fn build_layer(cfg: &Cfg) -> RateLimiterLayer {
    match cfg.preset {
        "per_second" => RateLimiterLayer::per_second(cfg.l).build(),
        "per_minute" => RateLimiterLayer::per_minute(cfg.l).build(),
        "burst" => RateLimiterLayer::burst(2, 1).build(),
        "default" => RateLimiterLayer::builder().build(),
        _ => RateLimiterLayer::builder()
            .limit_for_period(cfg.l)
            .refresh_period(big_dur(cfg.p_us))
            .timeout_duration(big_dur(cfg.timeout_us))
            .window_type(match cfg.win {
                Win::Fixed => WindowType::Fixed,
                Win::Log => WindowType::SlidingLog,
                Win::Counter => WindowType::SlidingCounter,
            })
            .build(),
    }
}

pub fn run(cfg: &Cfg, seed: u64) -> (std::sync::Arc<crate::world::World>, crate::sim::SimStats) {
    let (w, stats, ()) = run_sim(seed, |sim| {
        let w = sim.w.clone();
        let layer = build_layer(cfg);
        let svcs: Vec<_> = (1..=cfg.groups).map(|g| layer.layer(w.probe(g))).collect();
        let mut end = 0u64;
        for (i, c) in cfg.callers.iter().enumerate() {
            let req = Req::new(i as u64 + 1, 0, vec![Step::ok(Lat::ms(c.lat_ms))]);
            let svc = svcs[(c.group - 1) as usize].clone();
            let a = sim.actor(req.id, caller(w.clone(), svc, req, c.pause, map_err));
            sim.start_at(c.arrive_us, a);
            if let Some(d) = c.drop_at_us {
                sim.at(d, What::Drop(a));
                end = end.max(d);
            }
            end = end.max(c.arrive_us);
        }
        if !cfg.seq.is_empty() {
            let steps = cfg.seq.clone();
            let svc = svcs[0].clone();
            let w2 = w.clone();
            let a = sim.actor(0, move || {
                boxed(async move {
                    let mut id = 1000u64;
                    for st in steps {
                        if st.gap_us > 0 {
                            tokio::time::sleep(Duration::from_micros(st.gap_us)).await;
                        }
                        if st.sub_us > 0 {
                            tokio::time::advance(Duration::from_micros(st.sub_us)).await;
                        }
                        let mut futs = vec![];
                        for _ in 0..st.burst {
                            id += 1;
                            let req = Req::new(id, 0, vec![Step::ok(Lat::Us(0))]);
                            let mut s = svc.clone();
                            let w3 = w2.clone();
                            w3.log(Ev::Arrive { req: id });
                            futs.push(async move { do_call(&w3, &mut s, req, false, &map_err).await });
                        }
                        futures::future::join_all(futs).await;
                    }
                })
            });
            sim.start_at(0, a);
            end = end.max(cfg.seq.iter().map(|s| s.gap_us + cfg.timeout_us.min(10_000_000) + 1000).sum());
        }
        sim.horizon = end + cfg.timeout_us.min(10_000_000) + 10 * cfg.p_us.min(1_000_000) + 1_000_000;
        // callers that wait "forever" are cancelled once nothing else can happen
        for a in 0..sim.n_actors() {
            sim.at(sim.horizon - 1000, What::Drop(a));
        }
    });
    (w, stats)
}

/// Exact decision: can time be cut into consecutive windows, each >= p long, each holding <= l
/// of the (sorted) admission instants? Returns the densest run as witness when not.
pub fn cut_feasible(t: &[u64], l: usize, p: u64) -> bool {
    let n = t.len();
    if n <= l {
        return true;
    }
    // g[i] = earliest cut position whose first admission at-or-after it is admission i
    let inf = u64::MAX;
    let mut g = vec![inf; n + 1];
    for i in 0..n {
        // lower bound: strictly after admission i-1
        let lb = if i == 0 { 0 } else { t[i - 1] + 1 };
        let mut best = inf;
        if i <= l {
            best = lb; // first cut: the unbounded first window holds admissions 0..i
        }
        let lo = i.saturating_sub(l);
        for j in lo..i {
            if g[j] != inf {
                best = best.min(lb.max(g[j].saturating_add(p)));
            }
        }
        if best != inf && best <= t[i] {
            g[i] = best;
        }
    }
    (0..n).any(|i| g[i] != inf && n - i <= l)
}

pub fn log_feasible(t: &[u64], l: usize, p: u64) -> Option<usize> {
    (0..t.len().saturating_sub(l)).find(|&i| t[i + l] - t[i] < p)
}

#[derive(Default, Clone)]
struct RI {
    group: u32,
    first_poll: Option<u64>,
    enters: Vec<u64>,
    resolved: Option<(u64, Outcome)>,
    cancelled: Option<u64>,
}

/// "No limit" spelled as a huge limit_for_period: the limiter must be constructible and admit everybody.
fn extreme_limit(which: &str, sseed: u64) -> Report {
    let mut rng = Prng::new(sseed);
    // C15 quantifies over all limits: "no permits at all" (0) is the other extreme, every call must
    // be rejected (C02 asks for limit_for_period >= 1)
    let l = if which == "C15" { *rng.pick(&[usize::MAX, usize::MAX / 2, usize::MAX - 1, 0, 0]) } else { *rng.pick(&[usize::MAX, usize::MAX / 2, usize::MAX - 1]) };
    let to_ms = if l == 0 { *rng.pick(&[0u64, 0, 20, 120]) } else { 0 };
    let (win, wname) = *rng.pick(&[(WindowType::Fixed, "fixed"), (WindowType::SlidingLog, "log"), (WindowType::SlidingCounter, "counter")]);
    let mut rep = Report::default();
    let r = std::panic::catch_unwind(|| {
        run_sim(sseed, |sim| {
            let w = sim.w.clone();
            let layer = RateLimiterLayer::builder().limit_for_period(l).refresh_period(Duration::from_millis(50)).timeout_duration(Duration::from_millis(to_ms)).window_type(win).build();
            let svc = layer.layer(w.probe(1));
            for i in 0..6u64 {
                let req = Req::new(i + 1, 0, vec![Step::ok(Lat::Us(0))]);
                let a = sim.actor(req.id, crate::actors::caller_linger(w.clone(), svc.clone(), req, false, crate::actors::Linger::No, map_err));
                sim.start_at((i / 2) * 50_000, a);
            }
            sim.horizon = 1_000_000;
        })
    });
    match r {
        Err(_) => rep.violate(
            format!("{which}:{wname}:panic-at-extreme-config"),
            format!("rate limiter with limit_for_period={l}: {}", crate::sim::take_last_panic().unwrap_or_default()),
        ),
        Ok((w, _, ())) => {
            let log = w.take_log();
            let entered = log.iter().filter(|r| matches!(r.ev, Ev::InnerEnter { .. })).count();
            if l == 0 {
                if entered != 0 {
                    rep.violate(format!("{which}:{wname}:admitted-with-limit-zero"), format!("rate limiter with limit_for_period=0, timeout {to_ms}ms: {entered} of 6 calls reached the wrapped service"));
                }
            } else if entered != 6 {
                rep.violate(format!("{which}:{wname}:extreme-limit-not-admitted"), format!("rate limiter with limit_for_period={l}: {entered} of 6 calls were admitted"));
            }
            rep.log = log;
        }
    }
    rep.nontrivial = true;
    rep.sig = crate::prng::mix(l as u64, wname.len() as u64);
    rep.count("extreme_limit_scenarios", 1);
    rep.case = json!({"limit_for_period": l.to_string(), "window": wname, "timeout_ms": to_ms});
    rep
}

pub fn scenario(which: &str, sseed: u64, _tier: Tier) -> Report {
    if sseed % 67 == 0 {
        return extreme_limit(which, sseed);
    }
    let mut rng = Prng::new(sseed);
    let cfg = gen(&mut rng);
    let (w, stats) = run(&cfg, rng.next());
    let log = w.take_log();
    let mut rep = judge(which, &cfg, &log);
    let mut sig = Fnv::default();
    sig.add(stats.trace_sig);
    for r in &log {
        match &r.ev {
            Ev::InnerEnter { req, .. } => {
                sig.add(*req);
                sig.add(r.t);
            }
            Ev::Resolve { req, out } => {
                sig.add(*req);
                sig.add_str(&out.short());
            }
            _ => {}
        }
    }
    sig.add_str(&format!("{:?}{}{}{}", cfg.win, cfg.l, cfg.p_us, cfg.timeout_us));
    rep.sig = sig.0;
    rep.count("polls", stats.polls);
    rep.count("events", log.len() as u64);
    if stats.hit_poll_cap || stats.hit_horizon {
        rep.inconclusive = Some(format!("poll_cap={} horizon={}", stats.hit_poll_cap, stats.hit_horizon));
    }
    rep.case = json!({"cfg": format!("{cfg:?}")});
    rep.log = log;
    rep
}

pub fn judge(which: &str, cfg: &Cfg, log: &[Rec]) -> Report {
    let mut rep = Report::default();
    let (l, p, to) = (cfg.l, cfg.p_us, cfg.timeout_us);
    let group_of = |req: u64| -> u32 {
        if req >= 1000 || req == 0 {
            1
        } else {
            cfg.callers[(req - 1) as usize].group
        }
    };
    let mut info: HashMap<u64, RI> = HashMap::new();
    let mut admissions: HashMap<u32, Vec<(u64, u64)>> = HashMap::new(); // group -> (t, req)
    // last activity per group (for the idle clause): any first poll, admission or resolution
    let mut last_activity: HashMap<u32, u64> = HashMap::new();
    let mut idle_credit: HashMap<u32, usize> = HashMap::new();
    let wname = format!("{:?}", cfg.win).to_lowercase();

    for (idx, r) in log.iter().enumerate() {
        match &r.ev {
            Ev::Arrive { req } if *req != 0 => {
                info.insert(*req, RI { group: group_of(*req), ..Default::default() });
            }
            Ev::FirstPoll { req } => {
                let g = group_of(*req);
                let a = r.t;
                info.entry(*req).or_default().first_poll = Some(a);
                let adm = admissions.entry(g).or_default();
                let admitted_now = log[idx + 1..].iter().take_while(|x| x.t == a).any(|x| matches!(&x.ev, Ev::InnerEnter { req: q, .. } if q == req));
                if which == "C15" {
                    // idle clause: after >= 2P without any activity the next L arrivals are admitted at once
                    if let Some(&la) = last_activity.get(&g) {
                        if a >= la.saturating_add(p.saturating_mul(2)) {
                            idle_credit.insert(g, l);
                            rep.count("idle_gaps_ge_2P", 1);
                        }
                    }
                    let credit = idle_credit.get(&g).copied().unwrap_or(0);
                    if credit > 0 {
                        idle_credit.insert(g, credit - 1);
                        rep.count("idle_clause_checks", 1);
                        if !admitted_now {
                            rep.violate(
                                format!("C15:{wname}:not-admitted-after-idle"),
                                format!("r{req} arrived t={a}us among the first {l} calls after the limiter had been idle for >= 2 periods, but was not admitted at once"),
                            );
                        }
                    }
                    // spare-capacity clause (fixed window, sliding log): fewer than L admissions in (a-P, a]
                    if cfg.win != Win::Counter {
                        let recent = adm.iter().filter(|(t, _)| t.saturating_add(p) > a).count();
                        rep.count("spare_capacity_checks", 1);
                        if recent < l && !admitted_now {
                            rep.violate(
                                format!("C15:{wname}:not-admitted-with-spare-capacity"),
                                format!("r{req} arrived t={a}us, only {recent} of {l} admissions in the preceding period, but was not admitted at once"),
                            );
                        }
                    }
                }
                last_activity.insert(g, a);
            }
            Ev::InnerEnter { req, group, .. } => {
                admissions.entry(*group).or_default().push((r.t, *req));
                last_activity.insert(*group, r.t);
                let i = info.entry(*req).or_default();
                i.enters.push(r.t);
                if which == "C15" {
                    if let Some(fp) = i.first_poll {
                        let bound = fp.saturating_add(to).saturating_add(if fp % 1000 != 0 { 1000 } else if cfg.win == Win::Counter { 999 } else { 0 });
                        if r.t > bound {
                            rep.violate(format!("C15:{wname}:admitted-after-timeout"), format!("r{req} arrived t={fp}us, timeout {to}us, admitted at t={}us", r.t));
                        }
                    }
                    if i.enters.len() > 1 {
                        rep.violate(format!("C15:{wname}:double-inner-call"), format!("r{req} reached the inner service {} times", i.enters.len()));
                    }
                    if i.resolved.is_some() || i.cancelled.is_some() {
                        rep.violate(format!("C15:{wname}:decided-request-reached-inner"), format!("r{req} reached the inner service after it had been rejected/cancelled"));
                    }
                }
            }
            Ev::Resolve { req, out } => {
                let g = group_of(*req);
                last_activity.insert(g, r.t);
                let i = info.entry(*req).or_default();
                i.resolved = Some((r.t, out.clone()));
                if which == "C15" {
                    match out {
                        Outcome::Layer { kind, .. } => {
                            if kind != "RateLimited" {
                                rep.violate(format!("C15:{wname}:wrong-rejection-variant"), format!("r{req} rejected with {kind}"));
                            }
                            if !i.enters.is_empty() {
                                rep.violate(format!("C15:{wname}:rejected-reached-inner"), format!("r{req} was rejected but had reached the inner service"));
                            }
                            if let Some(fp) = i.first_poll {
                                let bound = fp.saturating_add(to).saturating_add(if fp % 1000 != 0 { 1000 } else if cfg.win == Win::Counter { 999 } else { 0 });
                                if r.t > bound {
                                    rep.violate(format!("C15:{wname}:rejected-after-timeout"), format!("r{req} arrived t={fp}us, timeout {to}us, rejected at t={}us", r.t));
                                }
                            }
                        }
                        _ => {
                            if i.enters.len() != 1 {
                                rep.violate(format!("C15:{wname}:admitted-inner-calls"), format!("r{req} was answered by the inner service but reached it {} times", i.enters.len()));
                            }
                        }
                    }
                }
            }
            Ev::Cancelled { req } => {
                let i = info.entry(*req).or_default();
                if i.enters.is_empty() {
                    i.cancelled = Some(r.t);
                }
            }
            Ev::ActorPanic { req, msg } => {
                rep.violate(format!("{which}:{wname}:library-panic"), format!("r{req}: {msg}"));
            }
            _ => {}
        }
    }

    // window discipline
    let mut waiters_total = 0usize;
    let mut max_same_instant_waiters = 0usize;
    let mut rejected = 0usize;
    for i in info.values() {
        if let (Some(fp), Some(&e)) = (i.first_poll, i.enters.first()) {
            if e > fp {
                waiters_total += 1;
            }
        }
        if matches!(&i.resolved, Some((_, Outcome::Layer { .. }))) {
            rejected += 1;
        }
    }
    for (g, adm) in &admissions {
        let mut ts: Vec<u64> = adm.iter().map(|x| x.0).collect();
        ts.sort();
        let waiter_ts: Vec<u64> = {
            let mut v: Vec<u64> = adm
                .iter()
                .filter(|(t, req)| info.get(req).and_then(|i| i.first_poll).map(|fp| *t > fp).unwrap_or(false))
                .map(|x| x.0)
                .collect();
            v.sort();
            v
        };
        let mut k = 0;
        while k < waiter_ts.len() {
            let same = waiter_ts.iter().filter(|&&t| t == waiter_ts[k]).count();
            max_same_instant_waiters = max_same_instant_waiters.max(same);
            k += same;
        }
        let ok = match cfg.win {
            Win::Log => log_feasible(&ts, l, p).is_none(),
            _ => cut_feasible(&ts, l, p),
        };
        rep.max("max_admissions_one_limiter", ts.len() as u64);
        if !ok {
            let ms: Vec<String> = ts.iter().map(|t| format!("{:.3}", *t as f64 / 1000.0)).collect();
            if which == "C02" {
                rep.violate(
                    format!("C02:{wname}:window-overfull"),
                    format!("limiter g{g} ({:?}, limit {l} per {}ms, timeout {}ms): admissions at [{}] ms cannot be split into windows >= period with <= limit each", cfg.win, p / 1000, to / 1000, ms.join(", ")),
                );
            } else {
                // attribute to C15 only when the waiters are what breaks the windows
                let non_waiters: Vec<u64> = {
                    let mut v: Vec<u64> = adm
                        .iter()
                        .filter(|(t, req)| !info.get(req).and_then(|i| i.first_poll).map(|fp| *t > fp).unwrap_or(false))
                        .map(|x| x.0)
                        .collect();
                    v.sort();
                    v
                };
                let ok2 = match cfg.win {
                    Win::Log => log_feasible(&non_waiters, l, p).is_none(),
                    _ => cut_feasible(&non_waiters, l, p),
                };
                if ok2 {
                    rep.violate(
                        format!("C15:{wname}:waiter-admitted-without-later-window-permit"),
                        format!("limiter g{g} ({:?}, limit {l} per {}ms): callers that waited were admitted although no later window had a permit for them; admissions at [{}] ms", cfg.win, p / 1000, ms.join(", ")),
                    );
                }
            }
        }
    }
    rep.max("max_waiters_woken_at_one_instant", max_same_instant_waiters as u64);
    rep.count("waiters_admitted_later", waiters_total as u64);
    rep.count("rejections", rejected as u64);
    let show = |x: u64| if x >= u64::MAX / 2 { "huge".to_string() } else { format!("{}ms", x / 1000) };
    rep.bucket(format!("{}:{:?} L={} P={} T={}{}", cfg.preset, cfg.win, l, show(p), show(to), if cfg.seq.is_empty() { "" } else { " seq" }));
    rep.nontrivial = match which {
        "C02" => max_same_instant_waiters >= 2 || rejected >= 1 || waiters_total >= 2,
        _ => waiters_total >= 1 && rejected >= 1,
    };
    rep
}

#[cfg(test)]
mod tests {
    use super::*;
    #[test]
    fn cuts() {
        assert!(cut_feasible(&[0, 0, 100, 100], 2, 100));
        assert!(!cut_feasible(&[0, 0, 100, 100, 100, 100], 2, 100));
        assert!(cut_feasible(&[0, 0, 99, 99, 150], 2, 100)); // cuts at 1 and 101
        assert!(!cut_feasible(&[0, 0, 99, 99, 150, 150, 198], 2, 100));
        assert!(cut_feasible(&[0, 50, 100, 150], 2, 100));
        assert!(cut_feasible(&[0, 1, 2], 3, 100));
        assert!(cut_feasible(&[0, 1, 2, 3], 3, 100_000));
        assert!(!cut_feasible(&[0, 1, 2, 3, 4, 5, 6], 3, 100_000));
        assert!(cut_feasible(&[0, 99, 100, 199, 200], 2, 100)); // cuts at 100 and 200
    }
}
