//! E-MIRI: runs `miri_child` under `cargo +nightly miri run` and folds its per-scenario JSON
//! lines into one Report. A Miri diagnostic (UB, data race, aliasing) is a violation.

use crate::report::Report;
use serde_json::{json, Value};
use std::process::Command;

pub fn run(prop: &str, sseed: u64, count: u64, many_seeds: Option<u32>, preemption: f64) -> Report {
    let mut rep = Report::default();
    let dir = crate::report::verif_dir().join("harness");
    let mut flags = String::from("-Zmiri-ignore-leaks");
    if let Some(n) = many_seeds {
        // different Miri seed ranges per invocation
        let base = (sseed % 1_000_000) as u32 * 4;
        flags.push_str(&format!(" -Zmiri-many-seeds={}..{}", base, base + n));
    }
    if preemption > 0.0 {
        flags.push_str(&format!(" -Zmiri-preemption-rate={preemption}"));
    }
    let out = Command::new("cargo")
        .current_dir(&dir)
        .args(["+nightly", "miri", "run", "--offline", "--quiet", "--bin", "miri_child", "--", prop, &sseed.to_string(), &count.to_string()])
        .env("MIRIFLAGS", &flags)
        .env("CARGO_NET_OFFLINE", "true")
        .env("CARGO_TARGET_DIR", dir.join("target-miri"))
        .output();
    let out = match out {
        Ok(o) => o,
        Err(e) => {
            rep.inconclusive = Some(format!("cannot start cargo miri: {e}"));
            return rep;
        }
    };
    let stdout = String::from_utf8_lossy(&out.stdout);
    let stderr = String::from_utf8_lossy(&out.stderr);
    let mut lines = 0;
    let mut samples = vec![];
    for l in stdout.lines() {
        if let Some(j) = l.strip_prefix("TRV-MIRI ") {
            if let Ok(v) = serde_json::from_str::<Value>(j) {
                lines += 1;
                if v["nontrivial"].as_bool().unwrap_or(false) {
                    rep.nontrivial = true;
                    rep.more_sigs.push(v["sig"].as_u64().unwrap_or(0));
                }
                if let Some(vs) = v["violations"].as_array() {
                    for x in vs {
                        rep.violate(x["signature"].as_str().unwrap_or("?").to_string(), format!("[under Miri, flags {flags}] {}", x["message"].as_str().unwrap_or("")));
                    }
                }
                if let Some(c) = v["counters"].as_object() {
                    for (k, n) in c {
                        rep.count(k, n.as_u64().unwrap_or(0));
                    }
                }
                if samples.len() < 2 {
                    samples.push(v["case"].clone());
                }
            }
        }
    }
    rep.count("miri_executions", lines);
    if !out.status.success() {
        let diag: Vec<&str> = stderr.lines().filter(|l| l.contains("error") || l.contains("Undefined Behavior") || l.contains("Data race") || l.contains("FAILING SEED")).take(6).collect();
        let is_ub = stderr.contains("Undefined Behavior") || stderr.contains("Data race") || stderr.contains("data race");
        if is_ub {
            rep.violate(format!("{prop}:miri:undefined-behaviour"), format!("Miri reported: {} (flags {flags}, child args {prop} {sseed} {count})", diag.join(" | ")));
        } else if rep.violations.is_empty() {
            let tail: Vec<&str> = stderr.lines().rev().take(8).collect();
            rep.inconclusive = Some(format!("miri child failed without a Miri diagnostic: {}", tail.into_iter().rev().collect::<Vec<_>>().join(" | ")));
        }
    } else if lines == 0 {
        rep.inconclusive = Some("miri child printed no result".into());
    }
    rep.sig = crate::prng::mix(sseed, lines);
    rep.case = json!({"engine": "miri", "flags": flags, "child_args": [prop, sseed, count], "executions": lines, "samples": samples});
    rep
}
