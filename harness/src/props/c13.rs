//! C13: adaptive limiter – limit within [min,max]; in-flight count exact; readiness agrees with
//! (in flight < limit).

use crate::actors::boxed;
use crate::prng::{Fnv, Prng};
use crate::report::{Report, Tier};
use crate::sim::{run_sim, yield_once, What};
use crate::world::{lock, Ev, Lat, Out, Outcome, PErr, Rec, Req, Step, World};
use serde_json::json;
use std::collections::HashSet;
use std::sync::atomic::{AtomicBool, Ordering};
use std::sync::Arc;
use std::task::Poll;
use std::time::Duration;
use tower::{Layer, Service};
use tower_resilience_adaptive::{AdaptiveError, AdaptiveLimiterLayer, Aimd, Algorithm, ConcurrencyAlgorithm, Vegas};

#[derive(Clone, Debug)]
pub struct AlgCfg {
    vegas: bool,
    min: usize,
    init: usize,
    max: usize,
    inc: usize,
    dec: f64,
    thr_us: u64,
    alpha: usize,
    beta: usize,
}

fn gen_alg(rng: &mut Prng) -> AlgCfg {
    let min = rng.range(0, 3) as usize;
    let max = if rng.chance(0.2) { min } else { min + rng.range(1, 5) as usize };
    let max = max.max(1);
    let min = min.min(max);
    AlgCfg {
        vegas: rng.chance(0.4),
        min,
        init: rng.range(0, 8) as usize,
        max,
        inc: rng.range(1, 5) as usize,
        dec: *rng.pick(&[0.0, 0.5, 0.9, 1.0]),
        thr_us: *rng.pick(&[5_000u64, 10_000]),
        alpha: rng.range(0, 3) as usize,
        beta: rng.range(1, 6) as usize,
    }
}

fn build_alg(c: &AlgCfg) -> Algorithm {
    if c.vegas {
        // builder and direct constructor alike (init may lie outside [min, max]: both clamp)
        if c.init.wrapping_add(c.alpha).wrapping_add(c.beta) % 2 == 0 {
            Algorithm::Vegas(Vegas::new(c.init, c.min, c.max, c.alpha, c.beta))
        } else {
            Algorithm::Vegas(Vegas::builder().initial_limit(c.init).min_limit(c.min).max_limit(c.max).alpha(c.alpha).beta(c.beta).build())
        }
    } else {
        Algorithm::Aimd(
            Aimd::builder()
                .initial_limit(c.init)
                .min_limit(c.min)
                .max_limit(c.max)
                .increase_by(c.inc)
                .decrease_factor(c.dec)
                .latency_threshold(Duration::from_micros(c.thr_us))
                .build(),
        )
    }
}

#[derive(Clone, Debug)]
struct R {
    arrive_poll: u64,
    out: Out,
    open_poll: u64,
    drop_poll: Option<u64>,
    pause: bool,
    /// give up asking for readiness after this many Pending answers
    patience: u32,
    /// which of the services built by separate `layer()` calls (sharing the algorithm) is used
    svc: u32,
    /// the caller keeps the completed call future alive: 0 = dropped at completion, k = for k more
    /// scheduling steps, u32::MAX = until the end of the scenario (beyond the final inspection)
    linger: u32,
}

#[derive(Clone, Debug)]
pub struct Cfg {
    alg: AlgCfg,
    reqs: Vec<R>,
    /// (poll index, virtual us to let pass)
    advances: Vec<(u64, u64)>,
    last_event: u64,
    n_svcs: u32,
}

pub fn gen(rng: &mut Prng) -> Cfg {
    let alg = gen_alg(rng);
    let n = rng.range(3, 12);
    let n_svcs = if rng.chance(0.3) { 2 } else { 1 };
    let span = 60;
    let mut reqs = vec![];
    let mut last = 0;
    for _ in 0..n {
        let arrive = rng.below(span);
        let open = arrive + rng.below(span);
        let drop_poll = if rng.chance(0.3) { Some(arrive + rng.below(span)) } else { None };
        last = last.max(open).max(drop_poll.unwrap_or(0));
        reqs.push(R {
            arrive_poll: arrive,
            out: match rng.below(10) {
                0..=5 => Out::Ok,
                6..=7 => Out::Err(1),
                8 => Out::Panic,
                _ => Out::PanicInCall,
            },
            open_poll: open,
            drop_poll,
            pause: rng.chance(0.2),
            patience: rng.range(3, 40) as u32,
            svc: 1 + rng.below(n_svcs) as u32,
            linger: match rng.below(10) {
                0 => u32::MAX,
                1 => rng.range(1, 20) as u32,
                _ => 0,
            },
        });
    }
    let mut advances = vec![];
    for _ in 0..rng.range(2, 10) {
        advances.push((rng.below(2 * span), *rng.pick(&[1000u64, 5000, 10_000, 11_000, 30_000])));
    }
    Cfg { alg, reqs, advances, last_event: last + 1, n_svcs: n_svcs as u32 }
}

fn map_err(e: &AdaptiveError<PErr>) -> Outcome {
    match e {
        AdaptiveError::Service(p) => Outcome::inner(p),
        AdaptiveError::LimitReached => Outcome::layer("LimitReached"),
    }
}

const INSPECTOR: u64 = 9000;

pub fn run(cfg: &Cfg, seed: u64) -> (Arc<World>, crate::sim::SimStats) {
    let (w, stats, ()) = run_sim(seed, |sim| {
        let w = sim.w.clone();
        let layer = AdaptiveLimiterLayer::new(build_alg(&cfg.alg));
        // separate layer() calls: own in-flight counter each, one shared algorithm
        let svcs: Vec<_> = (1..=cfg.n_svcs).map(|g| layer.layer(w.probe(g))).collect();
        let (min, max) = (cfg.alg.min as u64, cfg.alg.max as u64);
        let _ = (min, max);
        for (i, r) in cfg.reqs.iter().enumerate() {
            let gate = w.new_gate();
            let req = Req::new(i as u64 + 1, 0, vec![Step { lat: Lat::Gate(gate), out: r.out }]);
            let mut s = svcs[(r.svc - 1) as usize].clone();
            let w2 = w.clone();
            let (pause, patience, linger) = (r.pause, r.patience, r.linger);
            let grp = r.svc;
            let a = sim.actor(req.id, move || {
                boxed(async move {
                    let id = req.id;
                    // ask for readiness, observing (harness in-flight, limit) atomically before each poll
                    let mut pendings = 0u32;
                    let ready = std::future::poll_fn(|cx| {
                        let inflight = *lock(&w2.st).inflight.get(&grp).unwrap_or(&0) as u64;
                        let limit = s.limit() as u64;
                        let r = s.poll_ready(cx);
                        let code = match &r {
                            Poll::Ready(Ok(())) => 0,
                            Poll::Pending => 1,
                            Poll::Ready(Err(_)) => 2,
                        };
                        w2.log(Ev::Listener { name: format!("ready-poll:{code}"), a: inflight, b: limit });
                        match r {
                            Poll::Ready(x) => Poll::Ready(Some(x)),
                            Poll::Pending => {
                                pendings += 1;
                                if pendings >= patience {
                                    Poll::Ready(None)
                                } else {
                                    Poll::Pending
                                }
                            }
                        }
                    })
                    .await;
                    match ready {
                        Some(Ok(())) => {}
                        _ => {
                            w2.log(Ev::Resolve { req: id, out: Outcome::layer("gave-up-waiting-for-readiness") });
                            return;
                        }
                    }
                    w2.log(Ev::OuterReady { req: id, ok: true });
                    let mut fut = Box::pin(s.call(req));
                    w2.log(Ev::Issued { req: id });
                    if pause {
                        yield_once().await;
                    }
                    w2.log(Ev::FirstPoll { req: id });
                    let out = (&mut fut).await;
                    let o = match &out {
                        Ok(r) => Outcome::ok(r),
                        Err(e) => map_err(e),
                    };
                    w2.log(Ev::Resolve { req: id, out: o });
                    w2.log(Ev::Listener { name: "limit-after-call".into(), a: 0, b: s.limit() as u64 });
                    drop(out);
                    // a completed call future may legally be kept (polled through `&mut`) and dropped late
                    if linger == u32::MAX {
                        w2.note("completed future kept until the end");
                        std::future::pending::<()>().await;
                    }
                    for _ in 0..linger {
                        yield_once().await;
                    }
                    drop(fut);
                })
            });
            sim.at_poll(r.arrive_poll, What::Start(a));
            sim.at_poll(r.open_poll, What::OpenGate(gate));
            if let Some(d) = r.drop_poll {
                sim.at_poll(d, What::Drop(a));
            }
        }
        for (p, d) in &cfg.advances {
            sim.at_poll(*p, What::Advance(*d));
        }
        // after the history: open every gate, let the survivors finish, then inspect
        let n_gates = cfg.reqs.len();
        for g in 0..n_gates {
            sim.at_poll(cfg.last_event + 1, What::OpenGate(g));
        }
        let drain = cfg.last_event + 2 + 50 * (cfg.reqs.len() as u64 + 1);
        for g in 1..=cfg.n_svcs {
            let mut s = svcs[(g - 1) as usize].clone();
            let w3 = w.clone();
            let insp = sim.actor(INSPECTOR + g as u64, move || {
                boxed(async move {
                    let inflight = *lock(&w3.st).inflight.get(&g).unwrap_or(&0) as u64;
                    w3.log(Ev::Listener { name: "quiescent".into(), a: s.in_flight() as u64, b: inflight });
                    let limit = s.limit() as u64;
                    let mut polls = 0;
                    let r = std::future::poll_fn(|cx| {
                        polls += 1;
                        match s.poll_ready(cx) {
                            Poll::Ready(_) => Poll::Ready(true),
                            Poll::Pending if polls >= 3 => Poll::Ready(false),
                            Poll::Pending => Poll::Pending,
                        }
                    })
                    .await;
                    w3.log(Ev::Listener { name: format!("probe-ready:{}", r as u8), a: inflight, b: limit });
                })
            });
            sim.at_poll(drain + g as u64 * 8, What::Start(insp));
        }
        sim.p_yield = 0.0;
        sim.fair_after_poll = Some(cfg.last_event + 1);
        sim.poll_cap = drain + 128;
    });
    (w, stats)
}

pub fn scenario(sseed: u64, _tier: Tier) -> Report {
    let mut rng = Prng::new(sseed);
    let cfg = gen(&mut rng);
    let (w, stats) = run(&cfg, rng.next());
    let log = w.take_log();
    let mut rep = judge(&cfg, &log);
    // a caller that was refused readiness must be woken again: when the simulation ends because
    // nobody is runnable any more (all inner calls are over, nothing is in flight), no caller may
    // still be waiting for readiness
    if !stats.hit_poll_cap {
        let resolved: std::collections::HashSet<u64> = log.iter().filter_map(|r| match &r.ev {
            Ev::Resolve { req, .. } | Ev::ActorPanic { req, .. } => Some(*req),
            _ => None,
        }).collect();
        let stuck: Vec<u64> = stats.states.iter().filter(|(id, st)| *st == crate::sim::ActorState::Running && *id >= 1 && *id <= cfg.reqs.len() as u64 && !resolved.contains(id)).map(|(id, _)| *id).collect();
        if !stuck.is_empty() {
            rep.violate(
                format!("C13:{}:refused-caller-never-woken", if cfg.alg.vegas { "vegas" } else { "aimd" }),
                format!("callers {stuck:?} were refused readiness and are still waiting although nothing is in flight any more and nobody is runnable: poll_ready returned Pending without arranging a wake-up"),
            );
        }
    }
    let mut sig = Fnv::default();
    sig.add(stats.trace_sig);
    for r in &log {
        if let Ev::Listener { name, a, b } = &r.ev {
            if name.starts_with("ready-poll") {
                sig.add(*a * 64 + *b);
            }
        }
    }
    rep.sig = sig.0;
    rep.count("polls", stats.polls);
    rep.count("events", log.len() as u64);
    rep.case = json!({"cfg": format!("{cfg:?}")});
    rep.log = log;
    rep
}

pub fn judge(cfg: &Cfg, log: &[Rec]) -> Report {
    let mut rep = Report::default();
    let alg = if cfg.alg.vegas { "vegas" } else { "aimd" };
    let (min, max) = (cfg.alg.min as u64, cfg.alg.max as u64);
    let mut faults = 0u64;
    let mut limits: HashSet<u64> = HashSet::new();
    let mut inspected = false;
    for r in log {
        match &r.ev {
            Ev::Listener { name, a, b } => {
                let check_limit = |rep: &mut Report, l: u64| {
                    if l < min || l > max {
                        rep.violate(format!("C13:{alg}:limit-out-of-bounds"), format!("limit() = {l} outside [{min}, {max}] at t={}us; cfg {:?}", r.t, cfg.alg));
                    }
                };
                if let Some(code) = name.strip_prefix("ready-poll:") {
                    check_limit(&mut rep, *b);
                    limits.insert(*b);
                    rep.count("readiness_polls_judged", 1);
                    match code {
                        "1" if a < b => rep.violate(
                            format!("C13:{alg}:readiness-refused-below-limit"),
                            format!("poll_ready returned Pending with {a} calls in flight and limit {b} (inner service ready) at t={}us", r.t),
                        ),
                        "0" if a >= b => rep.violate(
                            format!("C13:{alg}:admitted-at-limit"),
                            format!("poll_ready returned Ready with {a} calls in flight and limit {b} at t={}us", r.t),
                        ),
                        _ => {}
                    }
                } else if name == "limit-after-call" {
                    check_limit(&mut rep, *b);
                    limits.insert(*b);
                } else if name == "quiescent" {
                    inspected = true;
                    if *b == 0 && *a != 0 {
                        rep.violate(
                            format!("C13:{alg}:in-flight-leak"),
                            format!("nothing is running (harness count 0) but in_flight() reports {a} after a history with {faults} dropped/panicked calls"),
                        );
                    }
                } else if let Some(ok) = name.strip_prefix("probe-ready:") {
                    check_limit(&mut rep, *b);
                    if *a == 0 && *b >= 1 && ok == "0" {
                        rep.violate(format!("C13:{alg}:probe-not-ready-when-idle"), format!("after the history nothing is in flight and limit is {b}, but a fresh caller is refused readiness"));
                    }
                }
            }
            Ev::InnerExit { how, .. } => {
                if matches!(how, crate::world::How::Dropped | crate::world::How::Panicked) {
                    faults += 1;
                }
            }
            Ev::ActorPanic { req, msg } => {
                if !msg.contains("probe: scripted panic") {
                    rep.violate(format!("C13:{alg}:library-panic"), format!("r{req}: {msg}"));
                }
            }
            _ => {}
        }
    }
    if !inspected {
        rep.inconclusive = Some("inspector did not run".into());
    }
    rep.count("calls_dropped_or_panicked_in_flight", faults);
    rep.max("distinct_limit_values_in_one_history", limits.len() as u64);
    rep.bucket(format!("{alg} min={} max={}{} services={}", cfg.alg.min, cfg.alg.max, if cfg.alg.min == cfg.alg.max { " (min=max)" } else { "" }, cfg.n_svcs));
    rep.nontrivial = faults >= 1 && limits.len() >= 2;
    rep
}

// ---------------------------------------------------------------------------------------
// algorithms alone: threads of random feedback, a sampler asserting the bounds on every read
// (native stress and Miri)
// ---------------------------------------------------------------------------------------

pub fn hammer(sseed: u64, threads: usize, ops: usize, rep: &mut Report) -> (AlgCfg, u64, HashSet<u64>) {
    let mut rng = Prng::new(sseed);
    let mut c = gen_alg(&mut rng);
    c.thr_us = 100;
    let steady = rng.chance(0.6);
    if steady && c.vegas {
        c.alpha = c.alpha.max(1);
        c.beta = c.beta.max(c.alpha);
    }
    let alg = Arc::new(build_alg(&c));
    let stop = Arc::new(AtomicBool::new(false));
    let name = if c.vegas { "vegas" } else { "aimd" };
    let (min, max) = (c.min, c.max);
    let mut hs = vec![];
    for t in 0..threads {
        let a = alg.clone();
        let mut r = Prng::new(sseed ^ (t as u64 + 1) * 0x9E37);
        hs.push(std::thread::spawn(move || {
            let mut bad = vec![];
            for _ in 0..ops {
                if steady {
                    // a steady latency with rare slow samples and failures keeps Vegas/AIMD moving
                    // up and down next to their bounds
                    match r.below(20) {
                        0 => a.record_failure(),
                        1 | 2 => a.record_success(Duration::from_micros(5000)),
                        _ => a.record_success(Duration::from_micros(50)),
                    }
                } else {
                    match r.below(4) {
                        0 => a.record_failure(),
                        1 => a.record_dropped(),
                        2 => a.record_success(Duration::from_micros(r.range(1, 90))),
                        _ => a.record_success(Duration::from_micros(r.range(101, 5000))),
                    }
                }
                let l = a.limit();
                if l < min || l > max {
                    bad.push(l);
                }
            }
            bad
        }));
    }
    let sampler = {
        let a = alg.clone();
        let stop = stop.clone();
        std::thread::spawn(move || {
            let mut seen = HashSet::new();
            let mut bad = vec![];
            loop {
                let l = a.limit();
                seen.insert(l as u64);
                if l < min || l > max {
                    bad.push(l);
                }
                if stop.load(Ordering::SeqCst) {
                    break;
                }
                std::thread::yield_now();
            }
            (seen, bad)
        })
    };
    let mut bad: Vec<usize> = vec![];
    for h in hs {
        bad.extend(h.join().unwrap());
    }
    stop.store(true, Ordering::SeqCst);
    let (seen, b2) = sampler.join().unwrap();
    bad.extend(b2);
    if let Some(l) = bad.first() {
        rep.violate(format!("C13:{name}:limit-out-of-bounds"), format!("concurrent feedback: limit() = {l} outside [{min}, {max}]; cfg {c:?}"));
    }
    (c, (threads * ops) as u64, seen)
}

pub fn stress(sseed: u64, rounds: u64) -> Report {
    let mut rep = Report::default();
    let mut total = 0;
    let mut varied = 0u64;
    let mut f = Fnv::default();
    for i in 0..rounds {
        let (_, n, seen) = hammer(crate::prng::mix(sseed, i), 6, 400, &mut rep);
        total += n;
        if seen.len() >= 2 {
            varied += 1;
            rep.more_sigs.push(crate::prng::mix(sseed, i));
        }
        for s in seen {
            f.add(s);
        }
    }
    rep.count("feedback_calls", total);
    rep.count("rounds", rounds);
    rep.count("rounds_where_limit_moved", varied);
    rep.nontrivial = varied > 0;
    rep.sig = f.0 ^ sseed;
    rep.case = json!({"engine":"stress","rounds":rounds,"feedback_calls":total,"rounds_where_limit_moved":varied});
    rep
}

pub fn miri_scenario(sseed: u64) -> Report {
    let mut rep = Report::default();
    let (c, n, seen) = hammer(sseed, 3, 4, &mut rep);
    rep.nontrivial = seen.len() >= 2;
    let mut f = Fnv::default();
    let mut v: Vec<u64> = seen.iter().cloned().collect();
    v.sort();
    for s in &v {
        f.add(*s);
    }
    rep.sig = f.0;
    rep.case = json!({"cfg": format!("{c:?}"), "feedback_calls": n, "limits_seen": v});
    rep
}

// ---------------------------------------------------------------------------------------
// extreme-but-valid configurations, sequential feedback (no concurrency needed): limits near
// usize::MAX, values that f64 cannot represent exactly, huge increments
// ---------------------------------------------------------------------------------------

pub fn extreme(sseed: u64) -> Report {
    crate::sim::install_panic_hook();
    let mut rng = Prng::new(sseed);
    let mut rep = Report::default();
    let big: [usize; 9] = [usize::MAX, usize::MAX - 1, (1usize << 63) + 1025, (1usize << 63) - 1, (1usize << 53) + 1, 1 << 62, u32::MAX as usize, 1000, 3];
    let max = *rng.pick(&big);
    let min = match rng.below(4) {
        0 => max,
        1 => max - rng.below(3.min((max as u64).saturating_add(1))) as usize,
        2 => 0,
        _ => *rng.pick(&[1usize, 2, max / 2, max.saturating_sub(1024)]),
    }
    .min(max);
    let init = *rng.pick(&[max, min, max - (max - min) / 2, 0, usize::MAX]);
    let c = AlgCfg {
        vegas: rng.chance(0.5),
        min,
        init,
        max,
        inc: *rng.pick(&[1usize, 5, 1 << 40, usize::MAX]),
        dec: *rng.pick(&[0.0, 0.5, 0.9, 1.0, 0.999_999_999]),
        thr_us: 100,
        alpha: rng.range(0, 3) as usize,
        beta: rng.range(1, 6) as usize,
    };
    let name = if c.vegas { "vegas" } else { "aimd" };
    let built = std::panic::catch_unwind(std::panic::AssertUnwindSafe(|| build_alg(&c)));
    let alg = match built {
        Ok(a) => a,
        Err(_) => {
            rep.violate(format!("C13:{name}:panic-at-extreme-config"), format!("building the algorithm panicked: {}; cfg {c:?}", crate::sim::take_last_panic().unwrap_or_default()));
            return rep;
        }
    };
    let steps = rng.range(20, 200);
    let steady = rng.chance(0.3);
    let mut moved = false;
    let mut last = alg.limit();
    for i in 0..steps {
        // op 4: a steady latency (Vegas then sees no queueing and probes upwards)
        let op = if steady { 4 } else { rng.below(5) };
        let r = std::panic::catch_unwind(std::panic::AssertUnwindSafe(|| match op {
            0 => alg.record_failure(),
            1 => alg.record_dropped(),
            2 => alg.record_success(Duration::from_micros(rng.range(1, 90))),
            3 => alg.record_success(Duration::from_micros(rng.range(101, 50_000))),
            _ => alg.record_success(Duration::from_micros(50)),
        }));
        if r.is_err() {
            rep.violate(
                format!("C13:{name}:panic-at-extreme-config"),
                format!("feedback step {i} (op {op}) panicked: {}; limit before {last}; cfg {c:?}", crate::sim::take_last_panic().unwrap_or_default()),
            );
            break;
        }
        let l = alg.limit();
        if l != last {
            moved = true;
        }
        if l < c.min || l > c.max {
            rep.violate(format!("C13:{name}:limit-out-of-bounds"), format!("after feedback step {i} (op {op}) limit() = {l} outside [{}, {}] (previous limit {last}); cfg {c:?}", c.min, c.max));
            break;
        }
        last = l;
    }
    // the same configuration behind the service: a handful of sequential calls, ok and failing in turn
    let c2 = c.clone();
    let svc_run = std::panic::catch_unwind(std::panic::AssertUnwindSafe(|| {
        run_sim(sseed, |sim| {
            let w = sim.w.clone();
            let svc = AdaptiveLimiterLayer::new(build_alg(&c2)).layer(w.probe(1));
            let w2 = w.clone();
            let a = sim.actor(1, move || {
                boxed(async move {
                    let mut svc = svc;
                    for i in 0..10u64 {
                        let out = if i % 2 == 0 { Out::Ok } else { Out::Err(1) };
                        let req = Req::new(i + 1, 0, vec![Step { lat: Lat::Us(0), out }]);
                        // a limit of 0 legitimately never becomes ready: give up after a few polls
                        let mut polls = 0;
                        let ready = std::future::poll_fn(|cx| {
                            polls += 1;
                            match tower::Service::poll_ready(&mut svc, cx) {
                                Poll::Ready(r) => Poll::Ready(Some(r)),
                                Poll::Pending if polls > 3 => Poll::Ready(None),
                                Poll::Pending => Poll::Pending,
                            }
                        })
                        .await;
                        if !matches!(ready, Some(Ok(()))) {
                            w2.note("not ready");
                            break;
                        }
                        let r = tower::Service::call(&mut svc, req).await;
                        w2.log(Ev::Resolve { req: i + 1, out: match &r { Ok(x) => Outcome::ok(x), Err(e) => map_err(e) } });
                    }
                    w2.note("service-driver-done");
                })
            });
            sim.start_at(0, a);
            sim.horizon = 1_000_000;
            sim.poll_cap = 10_000;
        })
    }));
    match svc_run {
        Err(_) => rep.violate(format!("C13:{name}:panic-at-extreme-config"), format!("building the service panicked: {}; cfg {c:?}", crate::sim::take_last_panic().unwrap_or_default())),
        Ok((w, _, ())) => {
            let log = w.take_log();
            for r in &log {
                if let Ev::ActorPanic { msg, .. } = &r.ev {
                    rep.violate(format!("C13:{name}:panic-at-extreme-config"), format!("a call through the service panicked: {msg}; cfg {c:?}"));
                }
            }
            let bad = log.iter().filter(|r| matches!(&r.ev, Ev::Resolve { req, out } if (req % 2 == 1) != matches!(out, Outcome::Ok { .. }))).count();
            if bad > 0 {
                rep.violate(format!("C13:{name}:extreme-config-wrong-outcome"), format!("{bad} of the sequential calls did not return the inner service's own outcome; cfg {c:?}"));
            }
            rep.count("extreme_service_calls", log.iter().filter(|r| matches!(r.ev, Ev::Resolve { .. })).count() as u64);
        }
    }
    rep.count("feedback_steps", steps);
    rep.bucket(format!("extreme:{name}"));
    rep.nontrivial = moved;
    let mut f = Fnv::default();
    f.add_str(&format!("{c:?}"));
    rep.sig = f.0;
    rep.case = json!({"engine": "extreme", "cfg": format!("{c:?}"), "final_limit": last.to_string()});
    rep
}
