//! The observable world of one scenario: append-only event log with virtual timestamps,
//! gates released by the director, and `Probe`, the instrumented inner service.

use std::collections::HashMap;
use std::fmt;
use std::future::Future;
use std::pin::Pin;
use std::sync::atomic::{AtomicU64, Ordering};
use std::sync::{Arc, Mutex, MutexGuard};
use std::task::{Context, Poll, Waker};
use std::time::Duration;

pub type Us = u64;

pub fn lock<T>(m: &Mutex<T>) -> MutexGuard<'_, T> {
    m.lock().unwrap_or_else(|e| e.into_inner())
}

// ---------------------------------------------------------------------------------------
// requests / responses
// ---------------------------------------------------------------------------------------

#[derive(Clone, Copy, Debug, PartialEq, Eq)]
pub enum Lat {
    /// completes after this many virtual microseconds (0 = in the first poll)
    Us(u64),
    /// completes when the director opens this gate
    Gate(usize),
    Never,
}
impl Lat {
    pub fn ms(n: u64) -> Lat {
        Lat::Us(n * 1000)
    }
}

#[derive(Clone, Copy, Debug, PartialEq, Eq)]
pub enum Out {
    Ok,
    Err(u8),
    Panic,
    /// panics synchronously inside `Service::call` (the other outcomes are produced by the future)
    PanicInCall,
}

#[derive(Clone, Copy, Debug, PartialEq, Eq)]
pub struct Step {
    pub lat: Lat,
    pub out: Out,
}
impl Step {
    pub fn ok(lat: Lat) -> Step {
        Step { lat, out: Out::Ok }
    }
}

/// Request: unique id, cache/coalesce key, opaque payload, and the script the probe follows for
/// the k-th inner call carrying this id (last step repeats).
#[derive(Clone, Debug)]
pub struct Req {
    pub id: u64,
    pub key: u32,
    pub payload: u64,
    pub script: Arc<Vec<Step>>,
}
impl Req {
    pub fn new(id: u64, key: u32, script: Vec<Step>) -> Req {
        Req { id, key, payload: id.wrapping_mul(0x9E37_79B9) ^ 0x5bd1_e995, script: Arc::new(script) }
    }
}

#[derive(Clone, Debug, PartialEq, Eq)]
pub struct Resp {
    pub serial: u64,
    pub req_id: u64,
    pub payload: u64,
    /// 0 = produced by the probe; other values = produced by a fallback/backup (see property)
    pub src: u8,
}

#[derive(Clone, Debug, PartialEq, Eq)]
pub struct PErr {
    pub serial: u64,
    pub req_id: u64,
    pub class: u8,
}
impl fmt::Display for PErr {
    fn fmt(&self, f: &mut fmt::Formatter<'_>) -> fmt::Result {
        write!(f, "probe error serial={} req={} class={}", self.serial, self.req_id, self.class)
    }
}
impl std::error::Error for PErr {}

// ---------------------------------------------------------------------------------------
// event log
// ---------------------------------------------------------------------------------------

#[derive(Clone, Debug, PartialEq, Eq)]
pub enum How {
    Ok,
    Err(u8),
    Panicked,
    Dropped,
}

/// What the caller finally saw.
#[derive(Clone, Debug, PartialEq, Eq)]
pub enum Outcome {
    Ok { serial: u64, req_id: u64, payload: u64, src: u8 },
    /// the inner (probe) error came back under the layer's pass-through variant
    Inner { serial: u64, req_id: u64, class: u8 },
    /// an error produced by the layer itself; `kind` names the variant, `inner` carries a
    /// probe error wrapped by it (if any)
    Layer { kind: String, inner: Option<(u64, u8)> },
}
impl Outcome {
    pub fn ok(r: &Resp) -> Outcome {
        Outcome::Ok { serial: r.serial, req_id: r.req_id, payload: r.payload, src: r.src }
    }
    pub fn inner(e: &PErr) -> Outcome {
        Outcome::Inner { serial: e.serial, req_id: e.req_id, class: e.class }
    }
    pub fn layer(kind: impl Into<String>) -> Outcome {
        Outcome::Layer { kind: kind.into(), inner: None }
    }
    pub fn layer_with(kind: impl Into<String>, e: &PErr) -> Outcome {
        Outcome::Layer { kind: kind.into(), inner: Some((e.serial, e.class)) }
    }
    pub fn short(&self) -> String {
        match self {
            Outcome::Ok { serial, src, .. } => {
                if *src == 0 { format!("ok#{serial}") } else { format!("ok#{serial}/src{src}") }
            }
            Outcome::Inner { serial, class, .. } => format!("err#{serial}/c{class}"),
            Outcome::Layer { kind, inner: None } => kind.clone(),
            Outcome::Layer { kind, inner: Some((s, c)) } => format!("{kind}(err#{s}/c{c})"),
        }
    }
}

#[derive(Clone, Debug, PartialEq, Eq)]
pub enum Ev {
    /// the actor carrying request `req` was started by the director
    Arrive { req: u64 },
    /// outer `poll_ready` returned Ready(Ok) / Ready(Err) for this actor
    OuterReady { req: u64, ok: bool },
    /// outer `call()` returned its future
    Issued { req: u64 },
    /// first poll of the outer call future is about to happen
    FirstPoll { req: u64 },
    Resolve { req: u64, out: Outcome },
    Cancelled { req: u64 },
    ActorPanic { req: u64, msg: String },
    /// probe `poll_ready`: 0 = Ready(Ok), 1 = Pending, 2 = Ready(Err)
    InnerReady { inst: u64, res: u8 },
    InnerEnter { req: u64, inst: u64, key: u32, attempt: u32, serial: u64, ready: bool, group: u32, payload: u64 },
    InnerExit { req: u64, attempt: u32, serial: u64, how: How, group: u32, key: u32 },
    /// a library event listener fired
    Listener { name: String, a: u64, b: u64 },
    Gate { id: usize },
    Note { what: String },
}

#[derive(Clone, Debug)]
pub struct Rec {
    pub seq: u64,
    pub t: Us,
    pub ev: Ev,
}

impl Rec {
    pub fn render(&self) -> String {
        format!("[{:>5} t={:>9.3}ms] {}", self.seq, self.t as f64 / 1000.0, render_ev(&self.ev))
    }
}

pub fn render_ev(ev: &Ev) -> String {
    match ev {
        Ev::Arrive { req } => format!("arrive r{req}"),
        Ev::OuterReady { req, ok } => format!("outer-ready r{req} ok={ok}"),
        Ev::Issued { req } => format!("issued r{req}"),
        Ev::FirstPoll { req } => format!("first-poll r{req}"),
        Ev::Resolve { req, out } => format!("resolve r{req} -> {}", out.short()),
        Ev::Cancelled { req } => format!("cancelled r{req}"),
        Ev::ActorPanic { req, msg } => format!("actor-panic r{req}: {msg}"),
        Ev::InnerReady { inst, res } => format!("inner-ready i{inst} res={res}"),
        Ev::InnerEnter { req, inst, key, attempt, serial, ready, group, .. } => {
            format!("INNER-ENTER r{req} a{attempt} k{key} i{inst} g{group} serial={serial} ready={ready}")
        }
        Ev::InnerExit { req, attempt, serial, how, .. } => {
            format!("inner-exit r{req} a{attempt} serial={serial} {how:?}")
        }
        Ev::Listener { name, a, b } => format!("listener {name} a={a} b={b}"),
        Ev::Gate { id } => format!("gate-open g{id}"),
        Ev::Note { what } => format!("note {what}"),
    }
}

struct GateState {
    open: bool,
    wakers: Vec<Waker>,
}

pub struct Inner {
    pub log: Vec<Rec>,
    seq: u64,
    attempts: HashMap<u64, u32>,
    gates: Vec<GateState>,
    /// live in-flight count per group (bulkhead instance / adaptive limiter / …)
    pub inflight: HashMap<u32, i64>,
    pub max_inflight: HashMap<u32, i64>,
    pub inflight_key: HashMap<u32, i64>,
    pub max_inflight_key: i64,
}

pub struct World {
    t0: Mutex<Option<tokio::time::Instant>>,
    std0: std::time::Instant,
    pub st: Mutex<Inner>,
    serial: AtomicU64,
    inst: AtomicU64,
    /// when false the log is not appended (stress runs that only use the counters)
    pub logging: bool,
    /// non-zero: the standard caller actors derive from it (and the request id) whether they keep
    /// a completed call future alive for a while, and whether they pause between a successful
    /// `poll_ready` and `call` — both legal for a Tower client (see actors.rs)
    pub habits: AtomicU64,
    /// the next this-many `poll_ready` calls on any probe of this world fail with class 6 (set by the
    /// director: a backend whose readiness fails for a moment and then recovers)
    pub ready_faults: AtomicU64,
    /// non-zero: the standard caller actors drop their service value as soon as the call future exists
    /// (`clone().oneshot(req)` style), whatever their other habits are
    pub oneshot_style: AtomicU64,
    /// the probe panics when one request is re-issued more often than this (a layer looping inside
    /// one poll cannot be stopped by any scheduler); long-outage scenarios raise it
    pub runaway_cap: AtomicU64,
    /// non-zero: the standard caller actors poll their call future under catch_unwind and, when it
    /// panics, keep the dead future around for this many scheduling steps before dropping it (a
    /// caller that catches the panic, e.g. with FutureExt::catch_unwind on a pinned future)
    pub keep_panicked_call: AtomicU64,
}

impl World {
    pub fn new() -> Arc<World> {
        Self::with_logging(true)
    }
    pub fn with_logging(logging: bool) -> Arc<World> {
        Arc::new(World {
            t0: Mutex::new(None),
            std0: std::time::Instant::now(),
            habits: AtomicU64::new(0),
            ready_faults: AtomicU64::new(0),
            oneshot_style: AtomicU64::new(0),
            runaway_cap: AtomicU64::new(50_000),
            keep_panicked_call: AtomicU64::new(0),
            st: Mutex::new(Inner {
                log: Vec::new(),
                seq: 0,
                attempts: HashMap::new(),
                gates: Vec::new(),
                inflight: HashMap::new(),
                max_inflight: HashMap::new(),
                inflight_key: HashMap::new(),
                max_inflight_key: 0,
            }),
            serial: AtomicU64::new(1),
            inst: AtomicU64::new(1),
            logging,
        })
    }
    /// Call inside the runtime: virtual time zero is now.
    pub fn start_clock(&self) {
        *lock(&self.t0) = Some(tokio::time::Instant::now());
    }
    pub fn t0(&self) -> tokio::time::Instant {
        lock(&self.t0).expect("clock not started")
    }
    pub fn now(&self) -> Us {
        match *lock(&self.t0) {
            Some(t0) => tokio::time::Instant::now().saturating_duration_since(t0).as_micros() as u64,
            None => self.std0.elapsed().as_micros() as u64,
        }
    }
    pub fn next_serial(&self) -> u64 {
        self.serial.fetch_add(1, Ordering::Relaxed)
    }
    pub fn log(&self, ev: Ev) -> u64 {
        let t = self.now();
        let mut st = lock(&self.st);
        st.seq += 1;
        let seq = st.seq;
        if self.logging {
            st.log.push(Rec { seq, t, ev });
        }
        seq
    }
    pub fn note(&self, what: impl Into<String>) {
        self.log(Ev::Note { what: what.into() });
    }
    pub fn take_log(&self) -> Vec<Rec> {
        std::mem::take(&mut lock(&self.st).log)
    }
    pub fn snapshot(&self) -> Vec<Rec> {
        lock(&self.st).log.clone()
    }

    pub fn new_gate(&self) -> usize {
        let mut st = lock(&self.st);
        st.gates.push(GateState { open: false, wakers: Vec::new() });
        st.gates.len() - 1
    }
    pub fn open_gate(&self, id: usize) {
        let wakers = {
            let mut st = lock(&self.st);
            while st.gates.len() <= id {
                st.gates.push(GateState { open: false, wakers: Vec::new() });
            }
            st.gates[id].open = true;
            std::mem::take(&mut st.gates[id].wakers)
        };
        self.log(Ev::Gate { id });
        for w in wakers {
            w.wake();
        }
    }
    pub fn gate(self: &Arc<Self>, id: usize) -> GateFut {
        GateFut { w: self.clone(), id }
    }

    /// A probe sharing this world. `group` identifies the limiter instance whose bound is
    /// monitored (bulkhead / adaptive); use 0 when irrelevant.
    pub fn probe(self: &Arc<Self>, group: u32) -> Probe {
        Probe {
            w: self.clone(),
            inst: self.inst.fetch_add(1, Ordering::Relaxed),
            flag: false,
            ready: ReadyScript::Always,
            pend_left: 0,
            group,
            born: self.now(),
            warm: None,
        }
    }
}

pub struct GateFut {
    w: Arc<World>,
    id: usize,
}
impl Future for GateFut {
    type Output = ();
    fn poll(self: Pin<&mut Self>, cx: &mut Context<'_>) -> Poll<()> {
        let mut st = lock(&self.w.st);
        while st.gates.len() <= self.id {
            st.gates.push(GateState { open: false, wakers: Vec::new() });
        }
        let g = &mut st.gates[self.id];
        if g.open {
            Poll::Ready(())
        } else {
            if !g.wakers.iter().any(|w| w.will_wake(cx.waker())) {
                g.wakers.push(cx.waker().clone());
            }
            Poll::Pending
        }
    }
}

// ---------------------------------------------------------------------------------------
// Probe
// ---------------------------------------------------------------------------------------

#[derive(Clone, Copy, Debug, PartialEq, Eq)]
pub enum ReadyScript {
    Always,
    /// Pending (self-waking) this many times per instance, then Ready
    PendN(u32),
    /// Pending until the gate opens
    Gate(usize),
    /// Ready(Err(class))
    Fail(u8),
    /// Ready(Err(class)) while another call of this probe's group is in flight, Ready(Ok) otherwise
    /// (a one-slot backend: clones made while the slot is taken cannot become ready)
    FailWhileBusy(u8),
    /// every instance (the original and each clone) becomes ready this many microseconds of virtual
    /// time after it was created (a connection that has to warm up / be checked out of a pool)
    WarmUp(u64),
    /// every instance is not ready while the virtual clock is in [from, to) microseconds (a backend
    /// that stalls for a while: connection pool exhausted, GC pause), ready otherwise
    Blackout(u64, u64),
}

pub struct Probe {
    w: Arc<World>,
    pub inst: u64,
    /// readiness observed since this instance's previous call
    flag: bool,
    ready: ReadyScript,
    pend_left: u32,
    group: u32,
    /// virtual instant of creation (WarmUp) and the timer that wakes a waiting caller
    born: Us,
    warm: Option<Pin<Box<tokio::time::Sleep>>>,
}

impl Probe {
    pub fn with_ready(mut self, r: ReadyScript) -> Probe {
        self.ready = r;
        if let ReadyScript::PendN(n) = r {
            self.pend_left = n;
        }
        self
    }
    pub fn world(&self) -> &Arc<World> {
        &self.w
    }
}

impl Clone for Probe {
    fn clone(&self) -> Probe {
        Probe {
            w: self.w.clone(),
            inst: self.w.inst.fetch_add(1, Ordering::Relaxed),
            flag: false,
            ready: self.ready,
            pend_left: match self.ready {
                ReadyScript::PendN(n) => n,
                _ => 0,
            },
            group: self.group,
            born: self.w.now(),
            warm: None,
        }
    }
}

struct ExitGuard {
    w: Arc<World>,
    req: u64,
    attempt: u32,
    serial: u64,
    group: u32,
    key: u32,
    how: Option<How>,
}
impl Drop for ExitGuard {
    fn drop(&mut self) {
        let how = match self.how.take() {
            Some(h) => h,
            None => {
                if std::thread::panicking() {
                    How::Panicked
                } else {
                    How::Dropped
                }
            }
        };
        let t = self.w.now();
        let mut st = lock(&self.w.st);
        *st.inflight.entry(self.group).or_insert(0) -= 1;
        *st.inflight_key.entry(self.key).or_insert(0) -= 1;
        st.seq += 1;
        let seq = st.seq;
        if self.w.logging {
            st.log.push(Rec {
                seq,
                t,
                ev: Ev::InnerExit {
                    req: self.req,
                    attempt: self.attempt,
                    serial: self.serial,
                    how,
                    group: self.group,
                    key: self.key,
                },
            });
        }
    }
}

pub type ProbeFut = Pin<Box<dyn Future<Output = Result<Resp, PErr>> + Send + 'static>>;

impl tower::Service<Req> for Probe {
    type Response = Resp;
    type Error = PErr;
    type Future = ProbeFut;

    fn poll_ready(&mut self, cx: &mut Context<'_>) -> Poll<Result<(), PErr>> {
        if self.w.ready_faults.load(Ordering::SeqCst) > 0 {
            self.w.ready_faults.fetch_sub(1, Ordering::SeqCst);
            let serial = self.w.next_serial();
            self.w.log(Ev::InnerReady { inst: self.inst, res: 2 });
            return Poll::Ready(Err(PErr { serial, req_id: u64::MAX, class: 6 }));
        }
        let (res, code) = match self.ready {
            ReadyScript::Always => (Poll::Ready(Ok(())), 0),
            ReadyScript::PendN(_) => {
                if self.pend_left > 0 {
                    self.pend_left -= 1;
                    cx.waker().wake_by_ref();
                    (Poll::Pending, 1)
                } else {
                    (Poll::Ready(Ok(())), 0)
                }
            }
            ReadyScript::Gate(g) => {
                let mut f = self.w.gate(g);
                match Pin::new(&mut f).poll(cx) {
                    Poll::Ready(()) => (Poll::Ready(Ok(())), 0),
                    Poll::Pending => (Poll::Pending, 1),
                }
            }
            ReadyScript::Fail(c) => {
                let serial = self.w.next_serial();
                (Poll::Ready(Err(PErr { serial, req_id: u64::MAX, class: c })), 2)
            }
            ReadyScript::WarmUp(us) => {
                let at = self.born.saturating_add(us);
                if self.w.now() >= at {
                    self.warm = None;
                    (Poll::Ready(Ok(())), 0)
                } else {
                    let t0 = self.w.t0();
                    let sl = self.warm.get_or_insert_with(|| Box::pin(tokio::time::sleep_until(t0 + std::time::Duration::from_micros(at))));
                    match sl.as_mut().poll(cx) {
                        Poll::Ready(()) => {
                            self.warm = None;
                            (Poll::Ready(Ok(())), 0)
                        }
                        Poll::Pending => (Poll::Pending, 1),
                    }
                }
            }
            ReadyScript::Blackout(from, to) => {
                let now = self.w.now();
                if now >= from && now < to {
                    let t0 = self.w.t0();
                    let sl = self.warm.get_or_insert_with(|| Box::pin(tokio::time::sleep_until(t0 + std::time::Duration::from_micros(to))));
                    match sl.as_mut().poll(cx) {
                        Poll::Ready(()) => {
                            self.warm = None;
                            (Poll::Ready(Ok(())), 0)
                        }
                        Poll::Pending => (Poll::Pending, 1),
                    }
                } else {
                    self.warm = None;
                    (Poll::Ready(Ok(())), 0)
                }
            }
            ReadyScript::FailWhileBusy(c) => {
                let busy = *lock(&self.w.st).inflight.get(&self.group).unwrap_or(&0) > 0;
                if busy {
                    let serial = self.w.next_serial();
                    (Poll::Ready(Err(PErr { serial, req_id: u64::MAX, class: c })), 2)
                } else {
                    (Poll::Ready(Ok(())), 0)
                }
            }
        };
        if code == 0 {
            self.flag = true;
        }
        self.w.log(Ev::InnerReady { inst: self.inst, res: code });
        res
    }

    fn call(&mut self, req: Req) -> ProbeFut {
        let w = self.w.clone();
        let serial = w.next_serial();
        let ready = std::mem::replace(&mut self.flag, false);
        if let ReadyScript::PendN(n) = self.ready {
            self.pend_left = n;
        }
        let t = w.now();
        let (attempt, step) = {
            let mut st = lock(&w.st);
            let a = st.attempts.entry(req.id).or_insert(0);
            let attempt = *a;
            *a += 1;
            // a layer that re-issues one request without end (inside one poll, where no scheduler
            // can stop it) would otherwise only end with the process
            if attempt as u64 > self.w.runaway_cap.load(Ordering::Relaxed) {
                drop(st);
                panic!("probe: runaway: more than {} inner calls for request {}", self.w.runaway_cap.load(Ordering::Relaxed), req.id);
            }
            let step = if req.script.is_empty() {
                Step { lat: Lat::Us(0), out: Out::Ok }
            } else {
                req.script[(attempt as usize).min(req.script.len() - 1)]
            };
            let g = {
                let c = st.inflight.entry(self.group).or_insert(0);
                *c += 1;
                *c
            };
            let m = st.max_inflight.entry(self.group).or_insert(0);
            if g > *m {
                *m = g;
            }
            let k = {
                let c = st.inflight_key.entry(req.key).or_insert(0);
                *c += 1;
                *c
            };
            if k > st.max_inflight_key {
                st.max_inflight_key = k;
            }
            st.seq += 1;
            let seq = st.seq;
            if w.logging {
                st.log.push(Rec {
                    seq,
                    t,
                    ev: Ev::InnerEnter {
                        req: req.id,
                        inst: self.inst,
                        key: req.key,
                        attempt,
                        serial,
                        ready,
                        group: self.group,
                        payload: req.payload,
                    },
                });
            }
            (attempt, step)
        };
        let mut guard = ExitGuard { w: w.clone(), req: req.id, attempt, serial, group: self.group, key: req.key, how: None };
        if step.out == Out::PanicInCall {
            guard.how = Some(How::Panicked);
            drop(guard);
            panic!("probe: scripted panic inside call() (req {} attempt {})", req.id, attempt);
        }
        Box::pin(async move {
            match step.lat {
                Lat::Us(0) => {}
                Lat::Us(n) => tokio::time::sleep(Duration::from_micros(n)).await,
                Lat::Gate(g) => w.gate(g).await,
                Lat::Never => std::future::pending::<()>().await,
            }
            match step.out {
                Out::Ok => {
                    guard.how = Some(How::Ok);
                    drop(guard);
                    Ok(Resp { serial, req_id: req.id, payload: req.payload, src: 0 })
                }
                Out::Err(c) => {
                    guard.how = Some(How::Err(c));
                    drop(guard);
                    Err(PErr { serial, req_id: req.id, class: c })
                }
                Out::Panic | Out::PanicInCall => {
                    guard.how = Some(How::Panicked);
                    drop(guard);
                    panic!("probe: scripted panic (req {} attempt {})", req.id, attempt)
                }
            }
        })
    }
}
