//! Standard caller actor: ready → call → (optional suspension) → await, all logged at the
//! client boundary.

use crate::sim::{yield_once, ActorFut};
use crate::world::{Ev, Outcome, Req, Resp, World};
use std::sync::Arc;
use tower::Service;

pub fn caller<S, M>(w: Arc<World>, svc: S, req: Req, pause: bool, map: M) -> impl FnOnce() -> ActorFut + Send + 'static
where
    S: Service<Req, Response = Resp> + Send + 'static,
    S::Future: Send + 'static,
    S::Error: Send + 'static,
    M: Fn(&S::Error) -> Outcome + Send + Sync + 'static,
{
    caller_linger(w, svc, req, pause, Linger::Auto, map)
}

/// What the caller does with the call future once it has resolved: a completed future may
/// legally be kept alive and dropped later (e.g. when polled through `&mut`/`pin!` inside a
/// `select!` or a struct field); cleanup that a layer does in `Drop` then runs late.
#[derive(Clone, Copy, Debug, PartialEq, Eq)]
pub enum Linger {
    No,
    /// keep the completed future for this many further scheduling steps
    Polls(u32),
    /// keep it for this much virtual time
    Us(u64),
    /// decided per request from `World::habits` (off when that is 0)
    Auto,
}

pub fn caller_linger<S, M>(w: Arc<World>, svc: S, req: Req, pause: bool, linger: Linger, map: M) -> impl FnOnce() -> ActorFut + Send + 'static
where
    S: Service<Req, Response = Resp> + Send + 'static,
    S::Future: Send + 'static,
    S::Error: Send + 'static,
    M: Fn(&S::Error) -> Outcome + Send + Sync + 'static,
{
    move || {
        Box::pin(tokio::task::unconstrained(async move {
            let mut svc = svc;
            let mut linger = linger;
            let mut ready_gap = 0u64;
            let mut call_gap_us = 0u64;
            // `clone().oneshot(req)` style: the service value is gone as soon as the call future exists
            let mut drop_svc = w.oneshot_style.load(std::sync::atomic::Ordering::Relaxed) != 0;
            if linger == Linger::Auto {
                let habits = w.habits.load(std::sync::atomic::Ordering::Relaxed);
                linger = Linger::No;
                if habits != 0 {
                    let h = crate::prng::mix(habits, req.id);
                    linger = match h % 8 {
                        0 => Linger::Polls(1 + ((h >> 8) % 12) as u32),
                        1 => Linger::Us(1000 * (1 + (h >> 8) % 6)),
                        _ => Linger::No,
                    };
                    if (h >> 4) % 8 == 0 {
                        ready_gap = 1 + (h >> 16) % 3;
                    }
                    // a call future prepared ahead and driven later (join_all, a batch, a queue)
                    if (h >> 24) % 10 == 0 {
                        call_gap_us = [500u64, 3000, 20_000, 150_000][((h >> 32) % 4) as usize];
                    }
                    drop_svc = drop_svc || (h >> 40) % 4 == 0;
                }
            }
            if linger == Linger::No && ready_gap == 0 && call_gap_us == 0 && !drop_svc && w.keep_panicked_call.load(std::sync::atomic::Ordering::Relaxed) == 0 {
                do_call(&w, &mut svc, req, pause, &map).await;
                return;
            }
            let id = req.id;
            match std::future::poll_fn(|cx| svc.poll_ready(cx)).await {
                Ok(()) => {
                    w.log(Ev::OuterReady { req: id, ok: true });
                    // a client may hold a ready service for a while before it calls it
                    for _ in 0..ready_gap {
                        yield_once().await;
                    }
                }
                Err(e) => {
                    w.log(Ev::OuterReady { req: id, ok: false });
                    w.log(Ev::Resolve { req: id, out: map(&e) });
                    return;
                }
            }
            let mut fut = Box::pin(svc.call(req));
            w.log(Ev::Issued { req: id });
            let svc = if drop_svc {
                drop(svc);
                None
            } else {
                Some(svc)
            };
            if pause {
                yield_once().await;
            }
            if call_gap_us > 0 {
                tokio::time::sleep(std::time::Duration::from_micros(call_gap_us)).await;
            }
            w.log(Ev::FirstPoll { req: id });
            let keep = w.keep_panicked_call.load(std::sync::atomic::Ordering::Relaxed);
            let out = if keep == 0 {
                (&mut fut).await
            } else {
                let polled = std::future::poll_fn(|cx| match std::panic::catch_unwind(std::panic::AssertUnwindSafe(|| std::future::Future::poll(fut.as_mut(), cx))) {
                    Ok(p) => p.map(Some),
                    Err(_) => std::task::Poll::Ready(None),
                })
                .await;
                match polled {
                    Some(out) => out,
                    None => {
                        // the caller caught the panic and still holds the dead future
                        let msg = crate::sim::take_last_panic().unwrap_or_default();
                        w.log(Ev::ActorPanic { req: id, msg });
                        for _ in 0..keep {
                            yield_once().await;
                        }
                        w.log(Ev::Note { what: format!("late-drop of panicked r{id}") });
                        let _ = std::panic::catch_unwind(std::panic::AssertUnwindSafe(move || drop(fut)));
                        return;
                    }
                }
            };
            let o = match &out {
                Ok(r) => Outcome::ok(r),
                Err(e) => map(e),
            };
            w.log(Ev::Resolve { req: id, out: o });
            drop(out);
            match linger {
                Linger::Polls(k) => {
                    for _ in 0..k {
                        yield_once().await;
                    }
                }
                Linger::Us(n) => tokio::time::sleep(std::time::Duration::from_micros(n)).await,
                Linger::No | Linger::Auto => {}
            }
            w.log(Ev::Note { what: format!("late-drop r{id}") });
            drop(fut);
            drop(svc);
        }))
    }
}

/// ready → call → (optional suspension) → await on a borrowed service; returns what the caller saw.
pub async fn do_call<S, M>(w: &Arc<World>, svc: &mut S, req: Req, pause: bool, map: &M) -> Outcome
where
    S: Service<Req, Response = Resp> + Send,
    S::Future: Send,
    S::Error: Send,
    M: Fn(&S::Error) -> Outcome + Sync,
{
    {
        {
            let id = req.id;
            match std::future::poll_fn(|cx| svc.poll_ready(cx)).await {
                Ok(()) => {
                    w.log(Ev::OuterReady { req: id, ok: true });
                }
                Err(e) => {
                    w.log(Ev::OuterReady { req: id, ok: false });
                    let o = map(&e);
                    w.log(Ev::Resolve { req: id, out: o.clone() });
                    return o;
                }
            }
            let fut = svc.call(req);
            w.log(Ev::Issued { req: id });
            if pause {
                yield_once().await;
            }
            w.log(Ev::FirstPoll { req: id });
            let out = fut.await;
            let o = match &out {
                Ok(r) => Outcome::ok(r),
                Err(e) => map(e),
            };
            w.log(Ev::Resolve { req: id, out: o.clone() });
            o
        }
    }
}

/// Same, but the service is kept (and returned through `keep`) – for sequential histories an
/// async block owning the service is simpler; this helper covers the one-shot case only.
pub fn boxed<F>(f: F) -> ActorFut
where
    F: std::future::Future<Output = ()> + Send + 'static,
{
    Box::pin(tokio::task::unconstrained(f))
}
