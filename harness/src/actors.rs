//! Standard caller actor: ready → call → (optional suspension) → await, all logged at the
//! client boundary.

use crate::sim::{yield_once, ActorFut};
use crate::world::{Ev, Outcome, Req, Resp, World};
use std::sync::Arc;
use tower::Service;

pub fn caller<S, M>(w: Arc<World>, svc: S, req: Req, pause: bool, map: M) -> impl FnOnce() -> ActorFut + Send + 'static
where
    S: Service<Req, Response = Resp> + Send + 'static,
    S::Future: Send + 'static,
    S::Error: Send + 'static,
    M: Fn(&S::Error) -> Outcome + Send + Sync + 'static,
{
    caller_linger(w, svc, req, pause, Linger::No, map)
}

/// What the caller does with the call future once it has resolved: a completed future may
/// legally be kept alive and dropped later (e.g. when polled through `&mut`/`pin!` inside a
/// `select!` or a struct field); cleanup that a layer does in `Drop` then runs late.
#[derive(Clone, Copy, Debug, PartialEq, Eq)]
pub enum Linger {
    No,
    /// keep the completed future for this many further scheduling steps
    Polls(u32),
    /// keep it for this much virtual time
    Us(u64),
}

pub fn caller_linger<S, M>(w: Arc<World>, svc: S, req: Req, pause: bool, linger: Linger, map: M) -> impl FnOnce() -> ActorFut + Send + 'static
where
    S: Service<Req, Response = Resp> + Send + 'static,
    S::Future: Send + 'static,
    S::Error: Send + 'static,
    M: Fn(&S::Error) -> Outcome + Send + Sync + 'static,
{
    move || {
        Box::pin(tokio::task::unconstrained(async move {
            let mut svc = svc;
            if linger == Linger::No {
                do_call(&w, &mut svc, req, pause, &map).await;
                return;
            }
            let id = req.id;
            match std::future::poll_fn(|cx| svc.poll_ready(cx)).await {
                Ok(()) => {
                    w.log(Ev::OuterReady { req: id, ok: true });
                }
                Err(e) => {
                    w.log(Ev::OuterReady { req: id, ok: false });
                    w.log(Ev::Resolve { req: id, out: map(&e) });
                    return;
                }
            }
            let mut fut = Box::pin(svc.call(req));
            w.log(Ev::Issued { req: id });
            if pause {
                yield_once().await;
            }
            w.log(Ev::FirstPoll { req: id });
            let out = (&mut fut).await;
            let o = match &out {
                Ok(r) => Outcome::ok(r),
                Err(e) => map(e),
            };
            w.log(Ev::Resolve { req: id, out: o });
            drop(out);
            match linger {
                Linger::Polls(k) => {
                    for _ in 0..k {
                        yield_once().await;
                    }
                }
                Linger::Us(n) => tokio::time::sleep(std::time::Duration::from_micros(n)).await,
                Linger::No => {}
            }
            w.log(Ev::Note { what: format!("late-drop r{id}") });
            drop(fut);
        }))
    }
}

/// ready → call → (optional suspension) → await on a borrowed service; returns what the caller saw.
pub async fn do_call<S, M>(w: &Arc<World>, svc: &mut S, req: Req, pause: bool, map: &M) -> Outcome
where
    S: Service<Req, Response = Resp> + Send,
    S::Future: Send,
    S::Error: Send,
    M: Fn(&S::Error) -> Outcome + Sync,
{
    {
        {
            let id = req.id;
            match std::future::poll_fn(|cx| svc.poll_ready(cx)).await {
                Ok(()) => {
                    w.log(Ev::OuterReady { req: id, ok: true });
                }
                Err(e) => {
                    w.log(Ev::OuterReady { req: id, ok: false });
                    let o = map(&e);
                    w.log(Ev::Resolve { req: id, out: o.clone() });
                    return o;
                }
            }
            let fut = svc.call(req);
            w.log(Ev::Issued { req: id });
            if pause {
                yield_once().await;
            }
            w.log(Ev::FirstPoll { req: id });
            let out = fut.await;
            let o = match &out {
                Ok(r) => Outcome::ok(r),
                Err(e) => map(e),
            };
            w.log(Ev::Resolve { req: id, out: o.clone() });
            o
        }
    }
}

/// Same, but the service is kept (and returned through `keep`) – for sequential histories an
/// async block owning the service is simpler; this helper covers the one-shot case only.
pub fn boxed<F>(f: F) -> ActorFut
where
    F: std::future::Future<Output = ()> + Send + 'static,
{
    Box::pin(tokio::task::unconstrained(f))
}
