//! E-SIM: a seeded sub-executor living inside one tokio current-thread runtime with a paused
//! clock. It owns every caller future ("actor"), decides which runnable actor is polled next,
//! injects spurious polls, drops actors on the director's orders, catches panics per poll and
//! records the poll trace.

use crate::prng::{Fnv, Prng};
use crate::world::{Ev, Us, World};
use std::cell::RefCell;
use std::future::Future;
use std::panic::{catch_unwind, AssertUnwindSafe};
use std::pin::Pin;
use std::sync::atomic::{AtomicBool, AtomicU64, Ordering};
use std::sync::{Arc, Mutex, Once};
use std::task::{Context, Poll, Wake, Waker};
use std::time::Duration;

pub type ActorFut = Pin<Box<dyn Future<Output = ()> + Send + 'static>>;

thread_local! {
    static LAST_PANIC: RefCell<Option<String>> = const { RefCell::new(None) };
}

static HOOK: Once = Once::new();
/// Silences the default panic hook; the message is kept per thread for whoever catches it.
pub fn install_panic_hook() {
    HOOK.call_once(|| {
        std::panic::set_hook(Box::new(|info| {
            let msg = if let Some(s) = info.payload().downcast_ref::<&str>() {
                s.to_string()
            } else if let Some(s) = info.payload().downcast_ref::<String>() {
                s.clone()
            } else {
                "<non-string panic>".to_string()
            };
            let loc = info.location().map(|l| format!(" @{}:{}", l.file(), l.line())).unwrap_or_default();
            if std::env::var_os("TRV_SHOW_PANICS").is_some() {
                eprintln!("panic: {msg}{loc}");
            }
            LAST_PANIC.with(|p| *p.borrow_mut() = Some(format!("{msg}{loc}")));
        }));
    });
}
pub fn take_last_panic() -> Option<String> {
    LAST_PANIC.with(|p| p.borrow_mut().take())
}

struct Parent {
    waker: Mutex<Option<Waker>>,
    wake_seq: AtomicU64,
}

struct Flag {
    woken: AtomicBool,
    seq: AtomicU64,
    parent: Arc<Parent>,
}
impl Wake for Flag {
    fn wake(self: Arc<Self>) {
        self.wake_by_ref()
    }
    fn wake_by_ref(self: &Arc<Self>) {
        if !self.woken.swap(true, Ordering::SeqCst) {
            self.seq.store(self.parent.wake_seq.fetch_add(1, Ordering::SeqCst), Ordering::SeqCst);
        }
        let w = self.parent.waker.lock().unwrap_or_else(|e| e.into_inner()).clone();
        if let Some(w) = w {
            w.wake();
        }
    }
}

#[derive(Clone, Copy, Debug, PartialEq, Eq)]
pub enum Policy {
    Fifo,
    Lifo,
    Random,
    /// random priorities with a few change points (PCT-like)
    Pct,
}

#[derive(Clone, Copy, Debug, PartialEq, Eq)]
pub enum ActorState {
    NotStarted,
    Running,
    Done,
    Dropped,
    Panicked,
}

struct Actor {
    req: u64,
    make: Option<Box<dyn FnOnce() -> ActorFut + Send>>,
    fut: Option<ActorFut>,
    flag: Arc<Flag>,
    waker: Waker,
    state: ActorState,
    polls: u32,
    prio: u64,
    /// drop this actor right after its k-th poll returned Pending
    drop_after_polls: Option<u32>,
    suspended: bool,
}

pub enum What {
    Start(usize),
    Drop(usize),
    OpenGate(usize),
    /// arbitrary synchronous action (logged by itself)
    Do(Box<dyn FnOnce(&Arc<World>) + Send>),
    /// keeps the simulation alive until this instant
    Nop,
    /// the actor is not polled until `Resume` even when woken: a future may legally be polled
    /// arbitrarily late (busy executor, caller doing something else)
    Suspend(usize),
    Resume(usize),
    /// let this much virtual time pass before anybody is polled again (used with the logical
    /// clock, where busy-waking actors would otherwise keep the runtime from ever going idle)
    Advance(Us),
}

struct Timed {
    at: Us,
    ord: u64,
    what: Option<What>,
}

pub struct SimStats {
    pub polls: u64,
    pub spurious: u64,
    pub yields: u64,
    pub trace_sig: u64,
    pub hit_poll_cap: bool,
    pub hit_horizon: bool,
    pub states: Vec<(u64, ActorState)>,
    pub max_same_instant_polls: u64,
}

pub struct Sim {
    pub w: Arc<World>,
    pub rng: Prng,
    actors: Vec<Actor>,
    events: Vec<Timed>,
    parent: Arc<Parent>,
    pub policy: Policy,
    pub p_spurious: f64,
    pub p_yield: f64,
    pub poll_cap: u64,
    /// the simulation ends no later than this virtual instant
    pub horizon: Us,
    pct_changes: Vec<u64>,
    ord: u64,
    /// director events on the logical clock (number of actor polls so far)
    poll_events: Vec<(u64, u64, Option<What>)>,
    /// from this poll index on the scheduler is round-robin fair (drain phase for components
    /// that busy-wake: a strict-priority policy would starve the actor they wait for)
    pub fair_after_poll: Option<u64>,
    sleeping_until: Option<Us>,
}

impl Sim {
    pub fn new(w: Arc<World>, seed: u64) -> Sim {
        let mut rng = Prng::new(seed);
        let policy = match rng.below(10) {
            0 => Policy::Fifo,
            1 => Policy::Lifo,
            2..=5 => Policy::Random,
            _ => Policy::Pct,
        };
        let p_spurious = *rng.pick(&[0.0, 0.0, 0.05, 0.2]);
        let p_yield = *rng.pick(&[0.0, 0.1, 0.3]);
        let mut pct_changes: Vec<u64> = (0..3).map(|_| rng.below(60)).collect();
        pct_changes.sort();
        Sim {
            w,
            rng,
            actors: Vec::new(),
            events: Vec::new(),
            parent: Arc::new(Parent { waker: Mutex::new(None), wake_seq: AtomicU64::new(1) }),
            policy,
            p_spurious,
            p_yield,
            poll_cap: 200_000,
            horizon: 3_600_000_000,
            pct_changes,
            ord: 0,
            poll_events: Vec::new(),
            fair_after_poll: None,
            sleeping_until: None,
        }
    }

    /// Fires `what` once `n` actor polls have happened (or earlier if nothing is runnable).
    pub fn at_poll(&mut self, n: u64, what: What) {
        let ord = self.rng.next();
        self.poll_events.push((n, ord, Some(what)));
    }

    /// Registers an actor; it is created (its `make` runs) when a `Start` event fires.
    pub fn actor<F>(&mut self, req: u64, make: F) -> usize
    where
        F: FnOnce() -> ActorFut + Send + 'static,
    {
        let flag = Arc::new(Flag { woken: AtomicBool::new(false), seq: AtomicU64::new(0), parent: self.parent.clone() });
        let waker = Waker::from(flag.clone());
        let prio = self.rng.next();
        self.actors.push(Actor {
            req,
            make: Some(Box::new(make)),
            fut: None,
            flag,
            waker,
            state: ActorState::NotStarted,
            polls: 0,
            prio,
            drop_after_polls: None,
            suspended: false,
        });
        self.actors.len() - 1
    }
    pub fn at(&mut self, at: Us, what: What) {
        // ties at one instant fire in seeded random order
        self.ord += 1;
        let ord = self.rng.next();
        self.events.push(Timed { at, ord, what: Some(what) });
    }
    /// ties with earlier-registered events at the same instant fire in registration order
    pub fn at_ordered(&mut self, at: Us, what: What) {
        self.ord += 1;
        self.events.push(Timed { at, ord: self.ord, what: Some(what) });
    }
    pub fn start_at(&mut self, at: Us, actor: usize) {
        self.at(at, What::Start(actor));
    }
    pub fn drop_after_polls(&mut self, actor: usize, k: u32) {
        self.actors[actor].drop_after_polls = Some(k);
    }
    pub fn n_actors(&self) -> usize {
        self.actors.len()
    }

    fn fire(&mut self, what: What) {
        match what {
            What::Start(i) => {
                let a = &mut self.actors[i];
                if a.state == ActorState::NotStarted {
                    self.w.log(Ev::Arrive { req: a.req });
                    let make = a.make.take().unwrap();
                    match catch_unwind(AssertUnwindSafe(make)) {
                        Ok(f) => {
                            a.fut = Some(f);
                            a.state = ActorState::Running;
                            a.flag.wake_by_ref();
                        }
                        Err(_) => {
                            a.state = ActorState::Panicked;
                            let msg = take_last_panic().unwrap_or_default();
                            self.w.log(Ev::ActorPanic { req: a.req, msg });
                        }
                    }
                }
            }
            What::Drop(i) => self.drop_actor(i),
            What::OpenGate(g) => self.w.open_gate(g),
            What::Do(f) => f(&self.w),
            What::Nop => {}
            What::Suspend(i) => self.actors[i].suspended = true,
            What::Resume(i) => self.actors[i].suspended = false,
            What::Advance(d) => {
                let until = self.w.now() + d;
                self.sleeping_until = Some(self.sleeping_until.map_or(until, |u| u.max(until)));
            }
        }
    }

    fn drop_actor(&mut self, i: usize) {
        let a = &mut self.actors[i];
        match a.state {
            ActorState::Running => {
                let f = a.fut.take();
                a.state = ActorState::Dropped;
                // log first: the drop itself may log InnerExit{Dropped}
                self.w.log(Ev::Cancelled { req: a.req });
                let r = catch_unwind(AssertUnwindSafe(move || drop(f)));
                if r.is_err() {
                    let msg = take_last_panic().unwrap_or_default();
                    self.w.log(Ev::ActorPanic { req: self.actors[i].req, msg: format!("panic in drop: {msg}") });
                }
            }
            ActorState::NotStarted => {
                a.make = None;
                a.state = ActorState::Dropped;
            }
            _ => {}
        }
    }

    pub async fn run(mut self) -> SimStats {
        install_panic_hook();
        self.events.sort_by(|a, b| (a.at, a.ord).cmp(&(b.at, b.ord)));
        self.poll_events.sort_by(|a, b| (a.0, a.1).cmp(&(b.0, b.1)));
        let mut next_pe = 0usize;
        let t0 = self.w.t0();
        let mut next_ev = 0usize;
        let mut timer = Box::pin(tokio::time::sleep_until(t0 + Duration::from_micros(self.horizon)));
        let mut timer_at = self.horizon;
        let mut stats = SimStats {
            polls: 0,
            spurious: 0,
            yields: 0,
            trace_sig: 0,
            hit_poll_cap: false,
            hit_horizon: false,
            states: vec![],
            max_same_instant_polls: 0,
        };
        let mut sig = Fnv::default();
        let mut last_t: Us = u64::MAX;
        let mut same_instant: u64 = 0;

        std::future::poll_fn(|cx: &mut Context<'_>| {
            *self.parent.waker.lock().unwrap() = Some(cx.waker().clone());
            loop {
                let now = self.w.now();
                if now != last_t {
                    last_t = now;
                    same_instant = 0;
                }
                // director
                while next_ev < self.events.len() && self.events[next_ev].at <= now {
                    let what = self.events[next_ev].what.take().unwrap();
                    next_ev += 1;
                    self.fire(what);
                }
                while next_pe < self.poll_events.len() && self.poll_events[next_pe].0 <= stats.polls {
                    let what = self.poll_events[next_pe].2.take().unwrap();
                    next_pe += 1;
                    self.fire(what);
                }
                if now >= self.horizon {
                    stats.hit_horizon = true;
                    return Poll::Ready(());
                }
                if let Some(until) = self.sleeping_until {
                    if now < until {
                        if timer_at != until {
                            timer.as_mut().reset(t0 + Duration::from_micros(until));
                            timer_at = until;
                        }
                        match timer.as_mut().poll(cx) {
                            Poll::Ready(()) => {
                                timer_at = u64::MAX;
                                continue;
                            }
                            Poll::Pending => return Poll::Pending,
                        }
                    }
                    self.sleeping_until = None;
                }
                // runnable set
                let mut runnable: Vec<usize> = (0..self.actors.len())
                    .filter(|&i| self.actors[i].state == ActorState::Running && !self.actors[i].suspended && self.actors[i].flag.woken.load(Ordering::SeqCst))
                    .collect();
                let mut spurious = false;
                if self.p_spurious > 0.0 && self.rng.chance(self.p_spurious) {
                    let idle: Vec<usize> = (0..self.actors.len())
                        .filter(|&i| self.actors[i].state == ActorState::Running && !self.actors[i].suspended && !self.actors[i].flag.woken.load(Ordering::SeqCst))
                        .collect();
                    if !idle.is_empty() {
                        let i = *self.rng.pick(&idle);
                        runnable.push(i);
                        spurious = true;
                    }
                }
                if runnable.is_empty() && next_pe < self.poll_events.len() {
                    // nothing can run: the logical clock jumps to the next scripted step
                    let what = self.poll_events[next_pe].2.take().unwrap();
                    next_pe += 1;
                    self.fire(what);
                    continue;
                }
                if runnable.is_empty() {
                    let all_done = self.actors.iter().all(|a| a.state != ActorState::Running && a.state != ActorState::NotStarted);
                    if all_done && next_ev >= self.events.len() {
                        return Poll::Ready(());
                    }
                    if next_ev >= self.events.len() && self.actors.iter().all(|a| a.state != ActorState::Running) {
                        // only never-started actors remain
                        return Poll::Ready(());
                    }
                    let want = if next_ev < self.events.len() { self.events[next_ev].at.min(self.horizon) } else { self.horizon };
                    if want != timer_at {
                        timer.as_mut().reset(t0 + Duration::from_micros(want));
                        timer_at = want;
                    }
                    match timer.as_mut().poll(cx) {
                        Poll::Ready(()) => {
                            timer_at = u64::MAX;
                            continue;
                        }
                        Poll::Pending => return Poll::Pending,
                    }
                }
                let policy = match self.fair_after_poll {
                    Some(n) if stats.polls >= n => Policy::Fifo,
                    _ => self.policy,
                };
                let pick = match policy {
                    Policy::Random => *self.rng.pick(&runnable),
                    Policy::Fifo => *runnable.iter().min_by_key(|&&i| self.actors[i].flag.seq.load(Ordering::SeqCst)).unwrap(),
                    Policy::Lifo => *runnable.iter().max_by_key(|&&i| self.actors[i].flag.seq.load(Ordering::SeqCst)).unwrap(),
                    Policy::Pct => *runnable.iter().max_by_key(|&&i| self.actors[i].prio).unwrap(),
                };
                if spurious && pick == *runnable.last().unwrap() {
                    stats.spurious += 1;
                }
                if self.policy == Policy::Pct && self.pct_changes.contains(&stats.polls) {
                    self.actors[pick].prio = self.rng.below(1 << 20);
                }
                let a = &mut self.actors[pick];
                a.flag.woken.store(false, Ordering::SeqCst);
                a.polls += 1;
                stats.polls += 1;
                same_instant += 1;
                stats.max_same_instant_polls = stats.max_same_instant_polls.max(same_instant);
                sig.add(pick as u64);
                let mut acx = Context::from_waker(&a.waker);
                let fut = a.fut.as_mut().unwrap();
                let r = catch_unwind(AssertUnwindSafe(|| fut.as_mut().poll(&mut acx)));
                match r {
                    Ok(Poll::Ready(())) => {
                        a.state = ActorState::Done;
                        a.fut = None;
                    }
                    Ok(Poll::Pending) => {
                        if a.drop_after_polls == Some(a.polls) {
                            self.drop_actor(pick);
                        }
                    }
                    Err(_) => {
                        let msg = take_last_panic().unwrap_or_default();
                        a.state = ActorState::Panicked;
                        let req = a.req;
                        let f = a.fut.take();
                        self.w.log(Ev::ActorPanic { req, msg });
                        let _ = catch_unwind(AssertUnwindSafe(move || drop(f)));
                    }
                }
                if stats.polls >= self.poll_cap {
                    stats.hit_poll_cap = true;
                    return Poll::Ready(());
                }
                if self.p_yield > 0.0 && self.rng.chance(self.p_yield) {
                    stats.yields += 1;
                    cx.waker().wake_by_ref();
                    return Poll::Pending;
                }
            }
        })
        .await;

        stats.trace_sig = sig.0;
        stats.states = self.actors.iter().map(|a| (a.req, a.state)).collect();
        // dropping `self` here drops all remaining actor futures
        let actors = std::mem::take(&mut self.actors);
        let _ = catch_unwind(AssertUnwindSafe(move || drop(actors)));
        stats
    }
}

/// Runs `build` inside a fresh current-thread runtime with a paused clock; `build` registers
/// actors/events on the `Sim` and may return an extra value (handles for later inspection).
pub fn run_sim<R, B>(seed: u64, build: B) -> (Arc<World>, SimStats, R)
where
    B: FnOnce(&mut Sim) -> R,
{
    install_panic_hook();
    let rt = tokio::runtime::Builder::new_current_thread().enable_time().start_paused(true).build().unwrap();
    let w = World::new();
    // half of all simulated executions use clients with "habits" (see World::habits)
    if seed % 2 == 0 {
        w.habits.store(crate::prng::mix(seed, 0x4841_4249) | 1, Ordering::Relaxed);
    }
    let w2 = w.clone();
    let (stats, r) = rt.block_on(async move {
        w2.start_clock();
        let mut sim = Sim::new(w2.clone(), seed);
        let r = build(&mut sim);
        let stats = sim.run().await;
        (stats, r)
    });
    // dropping the runtime cancels whatever the library spawned; what that teardown logs is
    // not part of the execution
    let end_len = crate::world::lock(&w.st).log.len();
    let _ = catch_unwind(AssertUnwindSafe(move || drop(rt)));
    crate::world::lock(&w.st).log.truncate(end_len);
    (w, stats, r)
}

/// Helper used by actor bodies: one explicit suspension point (a schedulable yield).
pub async fn yield_once() {
    let mut done = false;
    std::future::poll_fn(|cx| {
        if done {
            Poll::Ready(())
        } else {
            done = true;
            cx.waker().wake_by_ref();
            Poll::Pending
        }
    })
    .await
}
