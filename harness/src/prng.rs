//! splitmix64 – the only source of randomness in the harness (seeded, replayable).

#[derive(Clone, Debug)]
pub struct Prng(pub u64);

pub fn mix(a: u64, b: u64) -> u64 {
    let mut p = Prng(a ^ b.wrapping_mul(0x9E37_79B9_7F4A_7C15).rotate_left(17));
    p.next();
    p.next()
}

impl Prng {
    pub fn new(seed: u64) -> Self {
        let mut p = Prng(seed ^ 0xA076_1D64_78BD_642F);
        p.next();
        p
    }
    #[inline]
    pub fn next(&mut self) -> u64 {
        self.0 = self.0.wrapping_add(0x9E37_79B9_7F4A_7C15);
        let mut z = self.0;
        z = (z ^ (z >> 30)).wrapping_mul(0xBF58_476D_1CE4_E5B9);
        z = (z ^ (z >> 27)).wrapping_mul(0x94D0_49BB_1331_11EB);
        z ^ (z >> 31)
    }
    /// uniform in 0..n (n > 0)
    #[inline]
    pub fn below(&mut self, n: u64) -> u64 {
        debug_assert!(n > 0);
        ((self.next() as u128 * n as u128) >> 64) as u64
    }
    /// uniform in lo..=hi
    pub fn range(&mut self, lo: u64, hi: u64) -> u64 {
        lo + self.below(hi - lo + 1)
    }
    pub fn f64(&mut self) -> f64 {
        (self.next() >> 11) as f64 / (1u64 << 53) as f64
    }
    pub fn chance(&mut self, p: f64) -> bool {
        self.f64() < p
    }
    pub fn pick<'a, T>(&mut self, xs: &'a [T]) -> &'a T {
        &xs[self.below(xs.len() as u64) as usize]
    }
    pub fn shuffle<T>(&mut self, xs: &mut [T]) {
        for i in (1..xs.len()).rev() {
            let j = self.below(i as u64 + 1) as usize;
            xs.swap(i, j);
        }
    }
    pub fn fork(&mut self) -> Prng {
        Prng::new(self.next())
    }
}

/// FNV-1a over u64 words – used for schedule / history signatures.
#[derive(Clone, Copy)]
pub struct Fnv(pub u64);
impl Default for Fnv {
    fn default() -> Self {
        Fnv(0xcbf2_9ce4_8422_2325)
    }
}
impl Fnv {
    pub fn add(&mut self, x: u64) {
        for b in x.to_le_bytes() {
            self.0 ^= b as u64;
            self.0 = self.0.wrapping_mul(0x0000_0100_0000_01B3);
        }
    }
    pub fn add_str(&mut self, s: &str) {
        for b in s.bytes() {
            self.0 ^= b as u64;
            self.0 = self.0.wrapping_mul(0x0000_0100_0000_01B3);
        }
    }
}
