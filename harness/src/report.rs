//! Scenario reports, the parallel driver, known findings, evidence and verdict lines.

use crate::prng::mix;
use crate::world::Rec;
use serde_json::{json, Value};
use std::collections::{BTreeMap, HashSet};
use std::sync::atomic::{AtomicBool, AtomicU64, Ordering};
use std::sync::Mutex;
use std::time::Instant;

#[derive(Clone, Debug)]
pub struct Violation {
    /// stable identifier of the *kind* of failure (what known_findings.json is keyed on)
    pub signature: String,
    pub message: String,
}

/// Result of one scenario (one execution observed by a monitor).
#[derive(Default)]
pub struct Report {
    pub violations: Vec<Violation>,
    /// non-trivial by the property's own rule
    pub nontrivial: bool,
    /// signature of the schedule/history (distinctness)
    pub sig: u64,
    /// scenario could not be judged (poll cap etc.)
    pub inconclusive: Option<String>,
    /// small description of the case (config + outcome), kept for samples / replay
    pub case: Value,
    /// event log (kept only for violations and samples)
    pub log: Vec<Rec>,
    /// named counters merged into the evidence (sum)
    pub counters: BTreeMap<String, u64>,
    /// named maxima merged into the evidence (max)
    pub maxima: BTreeMap<String, u64>,
    /// coverage buckets hit (set union; evidence lists the per-bucket counts)
    pub buckets: Vec<String>,
    /// an engine whose one "scenario" is many rounds / seeds reports the signatures of its
    /// distinct non-trivial sub-cases here (counted in addition to `sig`)
    pub more_sigs: Vec<u64>,
}
impl Report {
    pub fn count(&mut self, k: &str, n: u64) {
        *self.counters.entry(k.to_string()).or_insert(0) += n;
    }
    pub fn max(&mut self, k: &str, n: u64) {
        let e = self.maxima.entry(k.to_string()).or_insert(0);
        if n > *e {
            *e = n;
        }
    }
    pub fn bucket(&mut self, k: impl Into<String>) {
        self.buckets.push(k.into());
    }
    pub fn violate(&mut self, signature: impl Into<String>, message: impl Into<String>) {
        self.violations.push(Violation { signature: signature.into(), message: message.into() });
    }
}

pub fn render_log(log: &[Rec]) -> Vec<String> {
    log.iter().map(|r| r.render()).collect()
}

#[derive(Clone, Copy, PartialEq, Eq, Debug)]
pub enum Tier {
    Quick,
    Thorough,
}
impl Tier {
    pub fn name(self) -> &'static str {
        match self {
            Tier::Quick => "quick",
            Tier::Thorough => "thorough",
        }
    }
    pub fn pick(self, q: u64, t: u64) -> u64 {
        match self {
            Tier::Quick => q,
            Tier::Thorough => t,
        }
    }
}

pub struct Known {
    pub entries: Vec<(String, String, String, String)>, // property, signature, status, what
}
impl Known {
    pub fn load() -> Known {
        let path = verif_dir().join("known_findings.json");
        let mut entries = vec![];
        if let Ok(s) = std::fs::read_to_string(&path) {
            if let Ok(v) = serde_json::from_str::<Value>(&s) {
                if let Some(a) = v.get("findings").and_then(|x| x.as_array()) {
                    for e in a {
                        let g = |k: &str| e.get(k).and_then(|x| x.as_str()).unwrap_or("").to_string();
                        entries.push((g("property"), g("signature"), g("status"), g("what")));
                    }
                }
            }
        }
        Known { entries }
    }
    /// Some(what) when (property, signature) is listed with status "known".
    pub fn is_known(&self, prop: &str, sig: &str) -> Option<&str> {
        self.entries.iter().find(|e| e.0 == prop && e.1 == sig && e.2 == "known").map(|e| e.3.as_str())
    }
}

pub fn verif_dir() -> std::path::PathBuf {
    if let Some(d) = std::env::var_os("VERIF_DIR") {
        return d.into();
    }
    // harness/target/release/trv -> /verif
    let exe = std::env::current_exe().unwrap();
    let mut p = exe.as_path();
    for _ in 0..4 {
        p = p.parent().unwrap_or(p);
    }
    if p.join("properties.jsonl").exists() {
        p.to_path_buf()
    } else {
        std::path::PathBuf::from("/verif")
    }
}

/// Aggregated result of one engine run over many scenarios.
pub struct Agg {
    pub engine: String,
    pub evaluations: u64,
    pub nontrivial: u64,
    pub distinct: HashSet<u64>,
    pub inconclusive: Vec<(u64, String)>,
    pub violations: Vec<(u64, Violation, Value, Vec<String>)>, // scenario seed, violation, case, log
    pub samples: Vec<Value>,
    pub counters: BTreeMap<String, u64>,
    pub maxima: BTreeMap<String, u64>,
    pub buckets: BTreeMap<String, u64>,
}
impl Agg {
    pub fn new(engine: &str) -> Agg {
        Agg {
            engine: engine.to_string(),
            evaluations: 0,
            nontrivial: 0,
            distinct: HashSet::new(),
            inconclusive: vec![],
            violations: vec![],
            samples: vec![],
            counters: BTreeMap::new(),
            maxima: BTreeMap::new(),
            buckets: BTreeMap::new(),
        }
    }
    pub fn absorb(&mut self, sseed: u64, mut r: Report, want_sample: bool) {
        self.evaluations += 1;
        if let Some(why) = r.inconclusive.take() {
            if self.inconclusive.len() < 20 {
                self.inconclusive.push((sseed, why));
            } else {
                self.inconclusive.push((sseed, String::new()));
            }
        }
        if r.nontrivial {
            self.nontrivial += 1;
            if r.more_sigs.is_empty() {
                self.distinct.insert(r.sig);
            }
        }
        for s in &r.more_sigs {
            self.distinct.insert(*s);
        }
        for (k, v) in &r.counters {
            *self.counters.entry(k.clone()).or_insert(0) += v;
        }
        for (k, v) in &r.maxima {
            let e = self.maxima.entry(k.clone()).or_insert(0);
            if *v > *e {
                *e = *v;
            }
        }
        for b in &r.buckets {
            *self.buckets.entry(b.clone()).or_insert(0) += 1;
        }
        if !r.violations.is_empty() {
            let log = render_log(&r.log);
            for v in r.violations.drain(..) {
                if self.violations.len() < 200 {
                    self.violations.push((sseed, v, r.case.clone(), log.clone()));
                }
            }
        } else if want_sample && (r.nontrivial || self.evaluations == 1) && self.samples.len() < 3 {
            let mut log = render_log(&r.log);
            if log.len() > 120 {
                log.truncate(120);
                log.push("… (truncated)".into());
            }
            self.samples.push(json!({"engine": self.engine, "scenario_seed": sseed, "case": r.case, "log": log}));
        }
    }
}

/// Runs `n` scenarios with seeds derived from `base`, on `threads` OS threads.
/// `confirm`: the engine is a deterministic function of the scenario seed (paused clock, seeded
/// scheduler), so a violation must show up again when the same scenario is run again. One that
/// does not reproduce in two further runs is kept as an *inconclusive* scenario, never as a verdict.
pub fn drive<F>(engine: &str, base: u64, n: u64, threads: usize, confirm: bool, f: F) -> Agg
where
    F: Fn(u64) -> Report + Sync,
{
    let next = AtomicU64::new(0);
    let agg = Mutex::new(Agg::new(engine));
    let stop = AtomicBool::new(false);
    std::thread::scope(|s| {
        for _ in 0..threads.max(1) {
            s.spawn(|| loop {
                if stop.load(Ordering::Relaxed) {
                    break;
                }
                let i = next.fetch_add(1, Ordering::Relaxed);
                if i >= n {
                    break;
                }
                let sseed = mix(base, i);
                let r = match std::panic::catch_unwind(std::panic::AssertUnwindSafe(|| f(sseed))) {
                    Ok(r) => r,
                    Err(_) => {
                        let msg = crate::sim::take_last_panic().unwrap_or_default();
                        let mut r = Report::default();
                        r.inconclusive = Some(format!("harness panic: {msg}"));
                        r
                    }
                };
                let mut r = r;
                let mut unreproduced = 0u64;
                if confirm && !r.violations.is_empty() {
                    let mut seen: HashSet<String> = HashSet::new();
                    for _ in 0..2 {
                        if let Ok(again) = std::panic::catch_unwind(std::panic::AssertUnwindSafe(|| f(sseed))) {
                            for v in &again.violations {
                                seen.insert(v.signature.clone());
                            }
                        }
                    }
                    let before = r.violations.len();
                    let lost: Vec<String> = r.violations.iter().filter(|v| !seen.contains(&v.signature)).map(|v| format!("[{}] {}", v.signature, v.message)).collect();
                    r.violations.retain(|v| seen.contains(&v.signature));
                    if r.violations.len() < before {
                        unreproduced = (before - r.violations.len()) as u64;
                        if r.violations.is_empty() {
                            r.inconclusive = Some(format!("a violation did not reproduce in two further runs of the same scenario: {}", lost.first().cloned().unwrap_or_default()));
                        }
                    }
                }
                let mut a = agg.lock().unwrap_or_else(|e| e.into_inner());
                if unreproduced > 0 {
                    *a.counters.entry("unreproduced_violations".to_string()).or_insert(0) += unreproduced;
                }
                let want = a.samples.len() < 3;
                a.absorb(sseed, r, want);
                if a.violations.len() >= 200 {
                    stop.store(true, Ordering::Relaxed);
                }
            });
        }
    });
    agg.into_inner().unwrap_or_else(|e| e.into_inner())
}

pub struct CheckMeta {
    pub id: &'static str,
    pub rule: &'static str,
    pub assumptions: Vec<String>,
    /// minimum number of distinct non-trivial cases below which the run is inconclusive
    pub floor: u64,
}

/// Writes evidence, replay files and the verdict lines. Returns the process exit code.
pub fn finish(meta: &CheckMeta, tier: Tier, seed: u64, started: Instant, aggs: Vec<Agg>, extra: Value) -> i32 {
    let dir = verif_dir();
    let known = Known::load();
    let mut evaluations = 0u64;
    let mut distinct = 0u64;
    let mut nontrivial = 0u64;
    let mut samples: Vec<Value> = vec![];
    let mut per_engine = serde_json::Map::new();
    let mut real_violations: Vec<(String, u64, Violation, Value, Vec<String>)> = vec![];
    let mut known_hits: BTreeMap<String, (String, u64)> = BTreeMap::new();
    let mut inconclusive: Vec<String> = vec![];
    for a in &aggs {
        evaluations += a.evaluations;
        distinct += a.distinct.len() as u64;
        nontrivial += a.nontrivial;
        for s in &a.samples {
            if samples.len() < 4 {
                samples.push(s.clone());
            }
        }
        per_engine.insert(
            a.engine.clone(),
            json!({
                "evaluations": a.evaluations,
                "nontrivial": a.nontrivial,
                "distinct_nontrivial": a.distinct.len(),
                "inconclusive_scenarios": a.inconclusive.len(),
                "counters": a.counters,
                "maxima": a.maxima,
                "buckets": a.buckets,
            }),
        );
        for (sseed, why) in a.inconclusive.iter().take(5) {
            inconclusive.push(format!("{} scenario {}: {}", a.engine, sseed, why));
        }
        for (sseed, v, case, log) in &a.violations {
            if let Some(what) = known.is_known(meta.id, &v.signature) {
                let e = known_hits.entry(v.signature.clone()).or_insert((what.to_string(), 0));
                e.1 += 1;
            } else {
                real_violations.push((a.engine.clone(), *sseed, v.clone(), case.clone(), log.clone()));
            }
        }
    }
    let n_incon: usize = aggs.iter().map(|a| a.inconclusive.len()).sum();
    if samples.is_empty() {
        for (engine, sseed, v, case, log) in real_violations.iter().take(2) {
            let mut log = log.clone();
            log.truncate(120);
            samples.push(json!({"engine": engine, "scenario_seed": sseed, "case": case, "violation": v.message, "log": log}));
        }
    }

    // replay files
    let mut lines = vec![];
    let _ = std::fs::create_dir_all(dir.join("replay"));
    let mut seen_sig = HashSet::new();
    for (engine, sseed, v, case, log) in &real_violations {
        if !seen_sig.insert(v.signature.clone()) {
            continue;
        }
        if seen_sig.len() > 10 {
            break;
        }
        let fname = format!("replay/{}-{}-{}.json", meta.id, engine, sseed);
        let body = json!({
            "property": meta.id, "engine": engine, "scenario_seed": sseed, "tier": tier.name(),
            "signature": v.signature, "message": v.message, "case": case, "log": log,
        });
        let _ = std::fs::write(dir.join(&fname), serde_json::to_string_pretty(&body).unwrap());
        lines.push(format!("VIOLATION property={} replay={} signature={} :: {}", meta.id, dir.join(&fname).display(), v.signature, v.message));
    }
    for (sig, (what, n)) in &known_hits {
        println!("KNOWN-FINDING: property={} {} [signature={} seen {}x]", meta.id, what, sig, n);
    }

    let wall = started.elapsed().as_secs_f64();
    let mut coverage = json!({
        "evaluations": evaluations,
        "distinct_nontrivial": distinct,
        "nontrivial": nontrivial,
        "rule": meta.rule,
        "samples": samples,
        "engines": Value::Object(per_engine),
        "inconclusive_scenarios": n_incon,
        "inconclusive_examples": inconclusive,
        "known_finding_hits": known_hits.iter().map(|(k, v)| json!({"signature": k, "count": v.1})).collect::<Vec<_>>(),
    });
    if let (Some(c), Some(e)) = (coverage.as_object_mut(), extra.as_object()) {
        for (k, v) in e {
            c.insert(k.clone(), v.clone());
        }
    }
    let ev = json!({
        "property_id": meta.id,
        "tier": tier.name(),
        "seed": seed,
        "level": "exploration",
        "coverage": coverage,
        "assumptions": meta.assumptions,
        "wall_s": wall,
        "violations": real_violations.len(),
    });
    let _ = std::fs::create_dir_all(dir.join("evidence"));
    let _ = std::fs::write(dir.join(format!("evidence/{}.json", meta.id)), serde_json::to_string_pretty(&ev).unwrap() + "\n");

    for l in &lines {
        println!("{l}");
    }
    if !lines.is_empty() {
        println!("{}: VIOLATED ({} violating observations, {} distinct signatures) in {:.1}s", meta.id, real_violations.len(), seen_sig.len(), wall);
        return 1;
    }
    // inconclusive: too few non-trivial cases or too many unjudged scenarios
    if distinct < meta.floor.max(2) && std::env::var_os("TRV_NO_FLOOR").is_none() {
        println!("INCONCLUSIVE property={} only {} distinct non-trivial cases (floor {})", meta.id, distinct, meta.floor.max(2));
        return 2;
    }
    if n_incon as u64 * 20 > evaluations {
        println!("INCONCLUSIVE property={} {} of {} scenarios could not be judged; e.g. {:?}", meta.id, n_incon, evaluations, inconclusive.first());
        return 2;
    }
    println!(
        "{}: held on {} executions ({} non-trivial, {} distinct) in {:.1}s{}",
        meta.id,
        evaluations,
        nontrivial,
        distinct,
        wall,
        if n_incon > 0 { format!("; {n_incon} scenarios unjudged") } else { String::new() }
    );
    0
}
