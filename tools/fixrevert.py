#!/usr/bin/env python3
"""tools/fixrevert.py [--only <commit-prefix>,...]   (--only merges into the existing results.json)

"A fixed entry suppresses nothing: the check reports the violation again if it ever returns."
This tool tests exactly that for every `fix:` commit recorded in known_findings.json: the commit is
reverted on a scratch copy of /repo's HEAD (`git revert --no-commit` in a scratch worktree, so that
later changes to the same file are kept; a revert that conflicts is recorded as such and skipped),
the harness is built against that copy and the checks of the commit's properties are run — quick,
then thorough where quick stays silent. Results go to /verif/fixrevert/results.json and a table to
/verif/fixrevert/SUMMARY.md. Nothing is ever changed in /repo; the scratch worktree and copy live
under /tmp and are removed at the end.
"""
import collections, json, os, re, subprocess, sys, time

def sh(cmd, cwd=None, env=None, timeout=7200):
    e = dict(os.environ)
    e["CARGO_NET_OFFLINE"] = "true"
    if env:
        e.update(env)
    try:
        p = subprocess.run(cmd, shell=True, cwd=cwd, env=e, capture_output=True, text=True, timeout=timeout)
        return p.returncode, p.stdout + p.stderr
    except subprocess.TimeoutExpired:
        return 124, "TIMEOUT"

# A repair whose defect a *later* repair also shuts out: undoing it alone cannot bring the
# violation back, so the later one is undone with it (noted in the summary).
MASKED_BY = {"469635b": ["7490960"]}

def main():
    only = None
    a = sys.argv[1:]
    if "--only" in a:
        only = a[a.index("--only") + 1].split(",")
    kf = json.load(open("/verif/known_findings.json"))["findings"]
    by_commit = collections.OrderedDict()
    for f in kf:
        if f.get("status") != "fixed":
            continue
        c = f["commit"][:7]
        e = by_commit.setdefault(c, {"commit": c, "props": [], "signatures": []})
        if f["property"] not in e["props"]:
            e["props"].append(f["property"])
        e["signatures"].append(f["signature"])
    rc, head = sh("git -C /repo rev-parse --short=7 HEAD")
    head = head.strip()
    wt = "/tmp/fixrevert/wt"
    sh(f"git -C /repo worktree remove --force {wt}; rm -rf /tmp/fixrevert; mkdir -p /tmp/fixrevert")
    sh(f"git -C /repo worktree add --detach {wt} HEAD")
    S = "/tmp/fixrevert/run"
    os.makedirs(f"{S}/verif/evidence", exist_ok=True)
    sh(f"mkdir -p {S}/pristine && git -C /repo archive HEAD | tar -x -C {S}/pristine")
    os.makedirs("/verif/fixrevert", exist_ok=True)
    res_path = "/verif/fixrevert/results.json"
    results = {}
    if only and os.path.exists(res_path):
        results = json.load(open(res_path)).get("results", {})
    for c, e in by_commit.items():
        if only and not any(c.startswith(o) for o in only):
            continue
        rc, subj = sh(f"git -C /repo log -1 --format=%s {c}")
        r = {"commit": c, "subject": subj.strip(), "at_repo_head": head, "properties": e["props"], "recorded_signatures": sorted(set(e["signatures"])), "checks": {}}
        sh("git revert --abort; git checkout -q -- . ; git clean -fdq", cwd=wt)
        also = MASKED_BY.get(c, [])
        if also:
            r["also_reverted"] = also
        rc, o = sh(f"git revert --no-commit {' '.join(also + [c])}", cwd=wt)
        manual = f"/verif/fixrevert/manual/{c}.diff"
        if rc != 0 and not os.path.exists(manual):
            r["reverts_cleanly"] = False
            r["note"] = "later commits rewrote the same lines; `git revert` conflicts"
            sh("git revert --abort; git checkout -q -- . ; git clean -fdq", cwd=wt)
            results[c] = r
            print(f"{c} {e['props']}: revert conflicts, skipped", flush=True)
            continue
        r["reverts_cleanly"] = True
        if rc != 0:
            # later commits rewrote the same lines: the repair is undone by a hand-written diff
            # against the current HEAD (fixrevert/manual/<commit>.diff) instead
            r["manual"] = True
            sh("git revert --abort; git checkout -q -- . ; git clean -fdq", cwd=wt)
            sh(f"cp {manual} /tmp/fixrevert/{c}.diff")
        else:
            sh(f"git diff HEAD > /tmp/fixrevert/{c}.diff", cwd=wt)
            sh("git revert --abort; git checkout -q -- . ; git clean -fdq", cwd=wt)
        sh(f"rsync -rlpgoD --checksum --delete --exclude target --exclude .git {S}/pristine/ {S}/repo/")
        rc, o = sh(f"patch -p1 --no-backup-if-mismatch < /tmp/fixrevert/{c}.diff", cwd=f"{S}/repo")
        if rc != 0:
            r["note"] = "reverse patch did not apply: " + o[-300:]
            results[c] = r
            continue
        sh(f"rsync -a --delete --exclude 'target*' /verif/harness/ {S}/harness/")
        sh(f"sed -i 's#/repo/crates#{S}/repo/crates#' {S}/harness/Cargo.toml")
        sh(f"cp /verif/known_findings.json /verif/properties.jsonl {S}/verif/; ln -sfn {S}/harness {S}/verif/harness")
        env = {"CARGO_TARGET_DIR": f"{S}/target", "VERIF_DIR": f"{S}/verif"}
        rc, o = sh("cargo build --release --offline --bin trv 2>&1 | tail -5", cwd=f"{S}/harness", env=env)
        if "error" in o or not os.path.exists(f"{S}/target/release/trv"):
            r["build"] = o[-600:]
            r["note"] = "the harness does not build against the reverted tree (the revert removes an API or hook the harness uses)"
            results[c] = r
            print(f"{c} {e['props']}: harness does not build against the reverted tree", flush=True)
            continue
        caught = []
        for p in e["props"]:
            pr = {}
            for tier in ("quick", "thorough"):
                t0 = time.time()
                rc, o = sh(f"{S}/target/release/trv {p} {tier}", cwd=f"{S}/verif", env=env)
                lines = [l[:300] for l in o.splitlines() if l.startswith(("VIOLATION", "KNOWN", "INCONCLUSIVE", p + ":"))]
                pr[tier] = {"exit": rc, "wall_s": round(time.time() - t0, 1), "lines": lines[:4]}
                if rc == 1:
                    caught.append(f"{p} {tier}")
                    break
            r["checks"][p] = pr
        r["caught_by"] = caught
        results[c] = r
        print(f"{c} {e['props']}: caught_by={caught}", flush=True)
        json.dump({"repo_head": head, "results": results}, open(res_path, "w"), indent=1)
    json.dump({"repo_head": head, "results": results}, open(res_path, "w"), indent=1)
    sh(f"git -C /repo worktree remove --force {wt}; rm -rf /tmp/fixrevert; git -C /repo worktree prune")
    # summary
    rows = []
    for c, r in results.items():
        if not r.get("reverts_cleanly"):
            out = "revert conflicts with later repairs of the same lines — not run"
        elif "build" in r:
            out = r["note"]
        elif r.get("caught_by"):
            sigs = []
            for p, pr in r["checks"].items():
                for tier, v in pr.items():
                    if v["exit"] == 1:
                        m = re.search(r"signature=(\S+)", " ".join(v["lines"]))
                        sigs.append(f"{p} {tier} (`{m.group(1) if m else '?'}`)")
            out = "; ".join(sigs) + (" — `git revert` conflicts with later repairs; undone by hand (`fixrevert/manual/`)" if r.get("manual") else "")
            if r.get("also_reverted"):
                out += f" — undone together with {', '.join('`' + a + '`' for a in r['also_reverted'])}, which shuts the same defect out a second way (alone, this revert changes nothing the property can see)"
        else:
            out = "**not re-detected** " + "; ".join(f"{p} {t}: exit {v['exit']}" for p, pr in r["checks"].items() for t, v in pr.items())
        rows.append(f"| `{c}` | {r['subject'].replace('|', '/')} | {', '.join(r['properties'])} | {out} |")
    n_clean = sum(1 for r in results.values() if r.get("reverts_cleanly") and "build" not in r)
    n_caught = sum(1 for r in results.values() if r.get("caught_by"))
    heads = sorted(set(r.get("at_repo_head", "607139c") for r in results.values()))
    text = (f"# Do the checks report a repaired defect again if it returns?\n\n`tools/fixrevert.py` (reverts made on /repo HEAD {' / '.join(heads)}, the HEAD at the time of each run): each `fix:` commit recorded in `known_findings.json` "
            f"reverted on a scratch copy of HEAD, harness rebuilt, checks of its properties run (quick, then thorough). "
            f"{len(results)} commits, {n_clean} revert cleanly and build, {n_caught} of those are reported again.\n\n"
            "| commit | subject | properties | reverted: reported by |\n|---|---|---|---|\n" + "\n".join(rows) + "\n")
    open("/verif/fixrevert/SUMMARY.md", "w").write(text)
    print(text[:1500])

if __name__ == "__main__":
    main()
