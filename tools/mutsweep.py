#!/usr/bin/env python3
"""tools/mutsweep.py [--workers N] [--per-file K] [--seed S] [--only SUBSTR] [--out FILE]

Systematic (operator-level) mutation sweep, complementing the hand-seeded changes in seeded/:
  1. generate single-edit mutants of the library sources (comparison/boolean/arithmetic
     operator swaps, +-1 edits, min/max swaps, negation removal, deletion of state-updating
     statements) from /repo's HEAD;
  2. per mutant, in a scratch copy under /tmp/mut/w<k>: does it compile? does the unedited
     workspace suite (cargo nextest, as in the baseline) still pass?  Mutants the suite kills are
     of no interest here;
  3. for the survivors: build the harness against the scratch copy and run the quick checks of
     the properties anchored in that crate; record caught / missed.
Nothing is written to /repo. Results: one JSON line per mutant in --out (default
/verif/mutation/results.jsonl), summary via tools/mutsummary.py.
"""
import hashlib, json, os, random, re, shutil, subprocess, sys, threading, time, queue

CR = "crates/tower-resilience-"
# file -> (crate package, property checks)
FILES = {
    CR + "bulkhead/src/service.rs": ("tower-resilience-bulkhead", ["C01", "C07", "C20"]),
    CR + "ratelimiter/src/limiter.rs": ("tower-resilience-ratelimiter", ["C02", "C15"]),
    CR + "ratelimiter/src/lib.rs": ("tower-resilience-ratelimiter", ["C02", "C15", "C20"]),
    CR + "circuitbreaker/src/circuit.rs": ("tower-resilience-circuitbreaker", ["C04", "C03", "C09"]),
    CR + "circuitbreaker/src/lib.rs": ("tower-resilience-circuitbreaker", ["C03", "C09", "C04", "C20"]),
    CR + "retry/src/lib.rs": ("tower-resilience-retry", ["C05", "C20"]),
    CR + "retry/src/budget.rs": ("tower-resilience-retry", ["C08", "C05"]),
    CR + "retry/src/backoff.rs": ("tower-resilience-retry", ["C14", "C05"]),
    CR + "retry/src/policy.rs": ("tower-resilience-retry", ["C05"]),
    CR + "timelimiter/src/lib.rs": ("tower-resilience-timelimiter", ["C06", "C20"]),
    CR + "cache/src/lib.rs": ("tower-resilience-cache", ["C10", "C20"]),
    CR + "cache/src/store.rs": ("tower-resilience-cache", ["C10"]),
    CR + "cache/src/eviction.rs": ("tower-resilience-cache", ["C10"]),
    CR + "cache/src/shared_layer.rs": ("tower-resilience-cache", ["C10", "C20"]),
    CR + "coalesce/src/service.rs": ("tower-resilience-coalesce", ["C11", "C20"]),
    CR + "hedge/src/lib.rs": ("tower-resilience-hedge", ["C12", "C20"]),
    CR + "adaptive/src/service.rs": ("tower-resilience-adaptive", ["C13", "C20"]),
    CR + "adaptive/src/algorithm.rs": ("tower-resilience-adaptive", ["C13"]),
    CR + "core/src/aimd.rs": ("tower-resilience-core", ["C13", "C08"]),
    CR + "core/src/events.rs": ("tower-resilience-core", ["C20"]),
    CR + "reconnect/src/service.rs": ("tower-resilience-reconnect", ["C16", "C20"]),
    CR + "reconnect/src/policy.rs": ("tower-resilience-reconnect", ["C14", "C16"]),
    CR + "reconnect/src/state.rs": ("tower-resilience-reconnect", ["C16"]),
    CR + "fallback/src/lib.rs": ("tower-resilience-fallback", ["C17", "C20"]),
    CR + "healthcheck/src/wrapper.rs": ("tower-resilience-healthcheck", ["C18"]),
    CR + "healthcheck/src/selector.rs": ("tower-resilience-healthcheck", ["C18"]),
    CR + "healthcheck/src/context.rs": ("tower-resilience-healthcheck", ["C18"]),
    CR + "chaos/src/service.rs": ("tower-resilience-chaos", ["C19", "C20"]),
    CR + "executor/src/service.rs": ("tower-resilience-executor", ["C20"]),
}

SKIP_LINE = re.compile(r"^\s*(//|#\[|///|\*|use |pub use |mod |pub mod )|tracing::|debug!|warn!|info!|counter!|histogram!|gauge!|describe_|metrics::|\.record\(|assert|panic!|unreachable!|write!|format!|name: |pattern_name|timestamp")

OPS = [
    ("le->lt", re.compile(r"(?<![<>=!-])<=(?!=)"), "<"),
    ("ge->gt", re.compile(r"(?<![<>=!-])>=(?!=)"), ">"),
    ("lt->le", re.compile(r"(?<=[\w\)\]] )<(?= [\w\(\*&])"), "<="),
    ("gt->ge", re.compile(r"(?<=[\w\)\]] )>(?= [\w\(\*&])"), ">="),
    ("eq->ne", re.compile(r"(?<![=!<>])==(?!=)"), "!="),
    ("ne->eq", re.compile(r"!=(?!=)"), "=="),
    ("and->or", re.compile(r"(?<=[\w\)\]] )&&(?= [\w\(\*&!])"), "||"),
    ("or->and", re.compile(r"(?<=[\w\)\]] )\|\|(?= [\w\(\*&!])"), "&&"),
    ("plus1->plus0", re.compile(r"\+ 1\b(?!\.)"), "+ 0"),
    ("minus1->minus0", re.compile(r"(?<![\w\)]) ?- 1\b(?!\.)|(?<=[\w\)]) - 1\b(?!\.)"), " - 0"),
    ("inc1->inc2", re.compile(r"\+= 1\b"), "+= 2"),
    ("dec1->dec0", re.compile(r"-= 1\b"), "-= 0"),
    ("min->max", re.compile(r"\.min\("), ".max("),
    ("max->min", re.compile(r"\.max\("), ".min("),
    ("true->false", re.compile(r"(?<![\w\"])true(?![\w\"])"), "false"),
    ("false->true", re.compile(r"(?<![\w\"])false(?![\w\"])"), "true"),
    ("drop-not", re.compile(r"\bif !(?=[\w\(])"), "if "),
    ("sat_sub->sat_add", re.compile(r"\.saturating_sub\("), ".saturating_add("),
    ("fetch_add->fetch_sub", re.compile(r"\.fetch_add\("), ".fetch_sub("),
    ("fetch_sub->fetch_add", re.compile(r"\.fetch_sub\("), ".fetch_add("),
]
DEL_STMT = re.compile(r"^(\s+)((self|this|st|state|circuit|ctx|ctx_clone|guard|config)[\w\.]*\.(store|fetch_add|fetch_sub|insert|remove|push_back|push|pop_front|clear|retain|truncate|record_\w+|set_\w+|transition_to|mark_\w+|reset\w*|cancel|complete|deposit|add_permits)\(.*\);|drop\(\w+\);|self\.[\w\.]+ (=|\+=|-=) [^;]*;)\s*$")


GEN_CALL = re.compile(r"^(\s+)[a-z_][\w\.]*\.[a-z_]\w*\([^;]*\);\s*$")
IF_COND = re.compile(r"^(\s+(?:\} else )?)if (?!let\b)[^{;]+ \{\s*$")


def sh(cmd, cwd=None, env=None, timeout=1800):
    e = dict(os.environ)
    e["CARGO_NET_OFFLINE"] = "true"
    if env:
        e.update(env)
    try:
        p = subprocess.run(cmd, shell=True, cwd=cwd, env=e, capture_output=True, text=True, timeout=timeout)
        return p.returncode, p.stdout + p.stderr
    except subprocess.TimeoutExpired as ex:
        return 124, "TIMEOUT"


def code_part(text):
    """lines of the file up to the unit-test module"""
    lines = text.split("\n")
    out = []
    for i, l in enumerate(lines):
        if l.strip().startswith("#[cfg(test)]") and i + 1 < len(lines) and lines[i + 1].strip().startswith("mod "):
            break
        out.append((i, l))
    return lines, out


def gen_mutants(base, per_file, seed, only):
    muts = []
    for f, (crate, checks) in FILES.items():
        if only and only not in f:
            continue
        text = open(os.path.join(base, f)).read()
        lines, code = code_part(text)
        cand = []
        for i, l in code:
            if SKIP_LINE.search(l):
                continue
            for name, rx, rep in OPS:
                for m in rx.finditer(l):
                    nl = l[: m.start()] + rep + l[m.end():]
                    if nl != l:
                        cand.append((i, name, l, nl))
            m = DEL_STMT.match(l) or (GEN_CALL.match(l) if not re.search(r"emit\(|listener|event|tracing|metric|log", l) else None)
            if m:
                cand.append((i, "delete-stmt", l, m.group(1) + "();"))
            m = IF_COND.match(l)
            if m:
                cand.append((i, "if-false", l, m.group(1) + "if false {"))
                cand.append((i, "if-true", l, m.group(1) + "if true {"))
        rnd = random.Random(f"{seed}:{f}")
        rnd.shuffle(cand)
        for i, name, l, nl in cand[:per_file]:
            mid = hashlib.sha1(f"{f}:{i}:{name}:{nl}".encode()).hexdigest()[:10]
            muts.append({"id": mid, "file": f, "line": i + 1, "op": name, "old": l.strip(), "new": nl.strip(), "crate": crate, "checks": checks, "_new_line": nl})
    return muts


TIER = "quick"


def worker(k, q, out_path, lock, base):
    wd = f"/tmp/mut/w{k}"
    repo = f"{wd}/repo"
    if not os.path.isdir(repo):
        sh(f"mkdir -p {wd} && cp -a {base} {repo}")
    os.makedirs(f"{wd}/verif/evidence", exist_ok=True)
    while True:
        try:
            m = q.get_nowait()
        except queue.Empty:
            return
        t0 = time.time()
        res = {k2: v for k2, v in m.items() if not k2.startswith("_")}
        # restore + mutate (no mtime preservation: cargo must see every changed file as new)
        sh(f"rsync -rlpgoD --checksum --delete --exclude target --exclude Cargo.lock {base}/ {repo}/")
        p = os.path.join(repo, m["file"])
        lines = open(p).read().split("\n")
        lines[m["line"] - 1] = m["_new_line"]
        open(p, "w").write("\n".join(lines))
        rc, o = sh(f"cargo build --offline -p {m['crate']} 2>&1 | tail -3", cwd=repo, timeout=600)
        if "error" in o and "Finished" not in o:
            res["status"] = "compile-error"
        else:
            rc, o = sh("cargo nextest run --workspace --no-fail-fast --offline --test-threads 5 2>&1 | tail -40", cwd=repo, timeout=1500)
            summ = [l for l in o.splitlines() if "Summary" in l]
            ok = bool(summ) and "failed" not in summ[-1] and "passed" in summ[-1] and rc == 0
            if not ok:
                res["status"] = "killed-by-suite"
                res["suite"] = (summ[-1].strip() if summ else o.strip().splitlines()[-1:] or ["?"])
            else:
                res["suite"] = summ[-1].strip()
                sh(f"rsync -a --delete --exclude 'target*' /verif/harness/ {wd}/harness/")
                sh(f"sed -i 's#/repo/crates#{repo}/crates#' {wd}/harness/Cargo.toml")
                shutil.copy("/verif/known_findings.json", f"{wd}/verif/known_findings.json")
                if not os.path.islink(f"{wd}/verif/harness"):
                    os.symlink(f"{wd}/harness", f"{wd}/verif/harness")
                env = {"CARGO_TARGET_DIR": f"{wd}/target", "VERIF_DIR": f"{wd}/verif"}
                rc, o = sh("cargo build --release --offline --bin trv 2>&1 | tail -5", cwd=f"{wd}/harness", env=env, timeout=1500)
                if not os.path.exists(f"{wd}/target/release/trv") or ("error" in o and "Finished" not in o):
                    res["status"] = "harness-build-error"
                    res["detail"] = o[-400:]
                else:
                    caught, detail = [], {}
                    for c in m["checks"]:
                        rc, o = sh(f"{wd}/target/release/trv {c} {TIER}", cwd=f"{wd}/verif", env=env, timeout=1200 if TIER == "quick" else 6000)
                        lines_o = [l[:300] for l in o.splitlines() if l.startswith(("VIOLATION", "INCONCLUSIVE", c + ":"))]
                        detail[c] = {"exit": rc, "line": lines_o[:1]}
                        if rc == 1:
                            caught.append(c)
                            break
                    res["status"] = "caught" if caught else "missed"
                    res["tier"] = TIER
                    res["caught_by"] = caught
                    res["detail"] = detail
        res["wall_s"] = round(time.time() - t0, 1)
        with lock:
            with open(out_path, "a") as f:
                f.write(json.dumps(res) + "\n")
            print(f"[w{k}] {res['id']} {res['file'].split('/')[-3]}/{os.path.basename(res['file'])}:{res['line']} {res['op']}: {res['status']} {res.get('caught_by', '')} ({res['wall_s']}s)", flush=True)


def main():
    a = sys.argv[1:]
    def opt(name, default):
        if name in a:
            i = a.index(name)
            v = a[i + 1]
            del a[i:i + 2]
            return v
        return default
    workers = int(opt("--workers", "3"))
    per_file = int(opt("--per-file", "12"))
    seed = opt("--seed", "1")
    only = opt("--only", "")
    redo = set(x for x in opt("--redo", "").split(",") if x)
    global TIER
    TIER = opt("--tier", "quick")
    out = opt("--out", "/verif/mutation/results.jsonl")
    base = "/tmp/mut/base"
    head = subprocess.run("git -C /repo rev-parse HEAD", shell=True, capture_output=True, text=True).stdout.strip()
    stamp = "/tmp/mut/base.head"
    if not (os.path.exists(stamp) and open(stamp).read().strip() == head):
        sh(f"rm -rf {base} && mkdir -p {base} && git -C /repo archive HEAD | tar -x -C {base} && cp /repo/Cargo.lock {base}/")
        # a mutant may hang a test of the suite: such a test is terminated and counts as failed
        os.makedirs(f"{base}/.config", exist_ok=True)
        open(f"{base}/.config/nextest.toml", "w").write('[profile.default]\nslow-timeout = { period = "60s", terminate-after = 3 }\n')
        sh("cargo nextest run --workspace --no-fail-fast --offline --test-threads 8 2>&1 | tail -2", cwd=base, timeout=3000)
        open(stamp, "w").write(head)
        sh("rm -rf /tmp/mut/w*")
    os.makedirs(os.path.dirname(out), exist_ok=True)
    done = set()
    if os.path.exists(out):
        for l in open(out):
            try:
                done.add(json.loads(l)["id"])
            except Exception:
                pass
    done -= redo
    muts = [m for m in gen_mutants(base, per_file, seed, only) if m["id"] not in done and (not redo or m["id"] in redo)]
    print(f"{len(muts)} mutants to run ({len(done)} already recorded), repo HEAD {head[:10]}", flush=True)
    q = queue.Queue()
    for m in muts:
        q.put(m)
    lock = threading.Lock()
    ts = [threading.Thread(target=worker, args=(k, q, out, lock, base)) for k in range(1, workers + 1)]
    for t in ts:
        t.start()
    for t in ts:
        t.join()
    print("SWEEP DONE", flush=True)


if __name__ == "__main__":
    main()
