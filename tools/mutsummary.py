#!/usr/bin/env python3
"""tools/mutsummary.py [results.jsonl] [--triage triage.json] [--out FILE] -> prints a summary and writes mutation/SUMMARY.md (or FILE)

triage.json maps mutant id -> {"class": "equivalent" | "out-of-scope" | "gap", "why": "..."} for
the mutants that survive both the repository's suite and the checks."""
import collections, json, os, sys

def main():
    a = sys.argv[1:]
    path = a[0] if a and not a[0].startswith("--") else "/verif/mutation/results.jsonl"
    tri_path = "/verif/mutation/triage.json"
    if "--triage" in a:
        tri_path = a[a.index("--triage") + 1]
    out_path = "/verif/mutation/SUMMARY.md"
    if "--out" in a:
        out_path = a[a.index("--out") + 1]
    tri = json.load(open(tri_path)) if os.path.exists(tri_path) else {}
    rows = {}
    for l in open(path):
        try:
            r = json.loads(l)
        except Exception:
            continue
        rows[r["id"]] = r  # the last record of a mutant wins (re-runs)
    rows = list(rows.values())
    st = collections.Counter(r["status"] for r in rows)
    by_file = collections.defaultdict(collections.Counter)
    for r in rows:
        by_file[r["file"].replace("crates/tower-resilience-", "")][r["status"]] += 1
    survivors = [r for r in rows if r["status"] in ("caught", "missed")]
    caught = [r for r in survivors if r["status"] == "caught"]
    missed = [r for r in survivors if r["status"] == "missed"]
    cls = collections.Counter(tri.get(r["id"], {}).get("class", "untriaged") for r in missed)
    out = []
    out.append("# Operator-level mutation sweep\n")
    out.append(f"{len(rows)} single-edit mutants of the library sources (`tools/mutsweep.py`): "
               f"{st['compile-error']} do not compile, {st['killed-by-suite']} are killed by the repository's own suite "
               f"(`cargo nextest run --workspace`), {len(survivors)} survive it. Of those survivors the checks of the "
               f"properties anchored in the mutated file catch **{len(caught)}** ({sum(1 for r in caught if r.get('tier') == 'thorough')} of them only in the thorough tier); {len(missed)} are not caught"
               + (f" ({', '.join(f'{v} {k}' for k, v in sorted(cls.items()))})" if missed else "") + ".\n")
    out.append("| file | mutants | compile error | killed by suite | caught by checks | not caught |\n|---|---|---|---|---|---|")
    for f in sorted(by_file):
        c = by_file[f]
        out.append(f"| {f} | {sum(c.values())} | {c['compile-error']} | {c['killed-by-suite']} | {c['caught']} | {c['missed']} |")
    by_check = collections.Counter(c for r in caught for c in r.get("caught_by", []))
    out.append("\nFirst check that fired, per caught mutant: " + ", ".join(f"{k} {v}" for k, v in sorted(by_check.items())) + ".\n")
    if missed:
        out.append("## Mutants that survive the suite and the checks\n")
        out.append("| id | where | edit | class | why |\n|---|---|---|---|---|")
        for r in sorted(missed, key=lambda r: (r["file"], r["line"])):
            t = tri.get(r["id"], {})
            edit = f"`{r['old'][:70]}` → `{r['new'][:70]}`".replace("|", "\\|")
            out.append(f"| {r['id']} | {r['file'].replace('crates/tower-resilience-', '')}:{r['line']} | {r['op']}: {edit} | {t.get('class', 'untriaged')} | {t.get('why', '')} |")
    text = "\n".join(out) + "\n"
    open(out_path, "w").write(text)
    print(text[:3000])
    print("statuses:", dict(st))

if __name__ == "__main__":
    main()
