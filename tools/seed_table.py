#!/usr/bin/env python3
"""Rewrites the table between <!-- SEEDS:BEGIN --> and <!-- SEEDS:END --> in DESIGN.md from seeded/*/meta.json."""
import glob, json, os, re
HERE = os.path.dirname(os.path.dirname(os.path.abspath(__file__)))
rows = []
for d in sorted(glob.glob(os.path.join(HERE, "seeded", "*"))):
    try:
        m = json.load(open(os.path.join(d, "meta.json")))
    except Exception:
        continue
    name = os.path.basename(d)
    c = m.get("confirmed", {})
    conf = "yes" if (c.get("demo_fails_with_patch") and c.get("demo_passes_without_patch") and c.get("existing_suite_passes_with_patch")) else "partly"
    caught = []
    for p in [m.get("property")] + m.get("also_checked", []):
        r = m.get("checks", {}).get(p, {})
        if isinstance(r, dict):
            for tier in ("quick", "thorough"):
                if r.get(tier, {}).get("exit") == 1:
                    sig = ""
                    for l in r[tier].get("lines", []):
                        mm = re.search(r"signature=(\S+)", l)
                        if mm:
                            sig = mm.group(1); break
                    caught.append(f"{p} {tier} (`{sig}`)")
                    break
    summary = (m.get("summary") or m.get("agent_meta", {}).get("summary") or "").replace("\n", " ").replace("|", "/")
    needs = (m.get("needs") or "").replace("\n", " ").replace("|", "/")
    if len(summary) > 230: summary = summary[:227] + "..."
    if len(needs) > 160: needs = needs[:157] + "..."
    cell = '; '.join(caught) if caught else '**not caught**'
    if m.get("superseded"):
        cell += f" — result at the /repo HEAD the patch was written for; superseded at {m['superseded'].get('at_repo_head', '?')}: the patch no longer breaks the property there"
    elif m.get("checks", {}).get("rebased_patch"):
        cell += " (patch re-applied by hand to the current HEAD)"
    if m.get("note_at_head"):
        conf = "yes, at the HEAD it was written for — " + m["note_at_head"]
    rows.append(f"| {name} | {summary} | {needs} | {conf} | {cell} |")
table = "| seed | change | needs | confirmed (suite passes, demo fails with / passes without) | caught by |\n|---|---|---|---|---|\n" + "\n".join(rows)
p = os.path.join(HERE, "DESIGN.md")
s = open(p).read()
s = re.sub(r"<!-- SEEDS:BEGIN -->.*<!-- SEEDS:END -->", "<!-- SEEDS:BEGIN -->\n" + table + "\n<!-- SEEDS:END -->", s, flags=re.S)
open(p, "w").write(s)
print(len(rows), "seeds")
