#!/usr/bin/env python3
"""tools/add_fixed.py <PROP> <signature> <commit> <short line> <what...>  — append a `fixed` entry to known_findings.json"""
import json, subprocess, sys
prop, sig, commit, line, what = sys.argv[1:6]
full = subprocess.run(f"git -C /repo rev-parse {commit}", shell=True, capture_output=True, text=True).stdout.strip()
k = json.load(open("/verif/known_findings.json"))
k["findings"].append({"property": prop, "signature": sig, "status": "fixed", "commit": full, "what": what,
                      "line": f"fixed: property={prop} {full[:12]} {line}"})
json.dump(k, open("/verif/known_findings.json", "w"), indent=1)
print("added", prop, sig, full[:12])
