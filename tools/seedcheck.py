#!/usr/bin/env python3
"""tools/seedcheck.py <SEED-DIR> <PROP>[,<PROP>...] [--name NAME] [--skip-worktree]

Confirms a seeded change (patch.diff + demo.rs + meta.json written by an independent sub-agent)
and runs the checks against it:
  1. in the agent's scratch worktree /tmp/wt/<ID>: the patch applies, the full unedited test
     suite still passes with it, the demo fails with it and passes without it;
  2. in an isolated scratch copy of /repo + /verif/harness under /tmp/seedrun (so that work in
     /repo is not disturbed): the quick checks of the given properties, then thorough for those
     that quick missed;
  3. records everything in /verif/seeded/<NAME>/ (patch.diff, demo.rs, meta.json).
"""
import fcntl, json, os, re, shutil, subprocess, sys, time
SR = os.environ.get("SEEDRUN", "/tmp/seedrun")

def sh(cmd, cwd=None, env=None, timeout=3600):
    e = dict(os.environ)
    e["CARGO_NET_OFFLINE"] = "true"
    if env:
        e.update(env)
    try:
        p = subprocess.run(cmd, shell=True, cwd=cwd, env=e, capture_output=True, text=True, timeout=timeout)
        return p.returncode, p.stdout + p.stderr
    except subprocess.TimeoutExpired as ex:
        return 124, "TIMEOUT\n" + ((ex.stdout or b"").decode(errors="replace") if isinstance(ex.stdout, bytes) else (ex.stdout or ""))

def main():
    args = sys.argv[1:]
    name = None
    skip_wt = False
    recheck = None
    if args and args[0] == "--recheck":
        # tools/seedcheck.py --recheck <NAME>: run only step 2 again for a recorded seed
        recheck = args[1]
        d = f"/verif/seeded/{recheck}"
        pm = json.load(open(f"{d}/meta.json"))
        args = [d, ",".join([pm["property"]] + pm.get("also_checked", [])), "--name", recheck, "--skip-worktree"]
        if os.path.exists(f"{d}/patch-rebased.diff"):
            args += ["--rebased", f"{d}/patch-rebased.diff"]
            if os.environ.get("SEED_WT"):
                # confirm the re-applied patch again in a worktree of the current HEAD
                args.remove("--skip-worktree")
    if "--name" in args:
        i = args.index("--name"); name = args[i + 1]; del args[i:i + 2]
    if "--skip-worktree" in args:
        args.remove("--skip-worktree"); skip_wt = True
    rebased = None
    if "--rebased" in args:
        i = args.index("--rebased"); rebased = args[i + 1]; del args[i:i + 2]
    seed_dir, props = args[0].rstrip("/"), args[1].split(",")
    m = re.search(r"/(C\d+[a-z]?)-out/(m\d+)$", seed_dir)
    wt_id, mi = (m.group(1), m.group(2)) if m else (props[0], "m1")
    name = name or f"{wt_id}-{mi}"
    patch = os.path.join(seed_dir, "patch.diff")
    demo = os.path.join(seed_dir, "demo.rs")
    meta_in = {}
    try:
        meta_in = json.load(open(os.path.join(seed_dir, "meta.json")))
        if recheck:
            meta_in = meta_in.get("agent_meta", {})
    except Exception as ex:
        meta_in = {"error": f"agent meta.json unreadable: {ex}"}
    prev = {}
    try:
        prev = json.load(open(f"/verif/seeded/{name}/meta.json"))
    except Exception:
        pass
    out = {"name": name, "property": props[0], "also_checked": props[1:], "agent_meta": meta_in, "confirmed": {}, "checks": {}, "ran": []}
    wt = f"/tmp/wt/{wt_id}"
    if recheck and rebased and os.environ.get("SEED_WT"):
        wt = os.environ["SEED_WT"]
        patch_wt = rebased
    else:
        patch_wt = patch

    # ---- 1. confirm in the agent's worktree
    if not skip_wt and os.path.isdir(wt):
        sh("git checkout -- . && git clean -fdq tests", cwd=wt)
        rc, o = sh(f"git apply --check {patch_wt}", cwd=wt)
        out["confirmed"]["patch_applies"] = rc == 0
        if patch_wt != patch:
            out["confirmed"]["rebased_patch_confirmed_at_repo_head"] = sh("git rev-parse --short=7 HEAD", cwd=wt)[1].strip()
        if rc == 0:
            sh(f"git apply {patch_wt}", cwd=wt)
            t = f"zz_demo_{name.replace('-', '_')}"
            rc, o = sh("cargo test --workspace --no-fail-fast --offline 2>&1 | grep -E '^test result|\\.\\.\\. FAILED|^error' | sort | uniq -c | sort -rn | head -20", cwd=wt, timeout=3000)
            bad = [l for l in o.splitlines() if ("FAILED" in l or re.search(r"^\s*\d+ error", l) or re.search(r"[1-9]\d* failed", l))]
            out["confirmed"]["existing_suite_passes_with_patch"] = (len(bad) == 0 and "test result" in o)
            out["confirmed"]["suite_summary"] = o.strip().splitlines()[:8]
            out["ran"].append("cargo test --workspace --no-fail-fast --offline   (in the scratch worktree, patch applied)")
            shutil.copy(demo, os.path.join(wt, "tests", t + ".rs"))
            fails = []
            for _ in range(2):
                rc, o = sh(f"cargo test --offline --test {t} 2>&1 | tail -30", cwd=wt, timeout=1500)
                fails.append("test result: FAILED" in o or "panicked" in o)
                demo_out_with = o
            out["confirmed"]["demo_fails_with_patch"] = all(fails)
            out["confirmed"]["demo_output_with_patch_tail"] = demo_out_with.strip().splitlines()[-6:]
            sh(f"git apply -R {patch_wt}", cwd=wt)
            passes = []
            for _ in range(2):
                rc, o = sh(f"cargo test --offline --test {t} 2>&1 | tail -15", cwd=wt, timeout=1500)
                passes.append("test result: ok" in o and "FAILED" not in o)
            out["confirmed"]["demo_passes_without_patch"] = all(passes)
            out["ran"].append(f"cargo test --offline --test {t}   (twice with the patch: must fail; twice without: must pass)")
            os.remove(os.path.join(wt, "tests", t + ".rs"))
            sh("git checkout -- .", cwd=wt)

    # ---- 2. run the checks in an isolated copy
    os.makedirs(f"{SR}", exist_ok=True)
    lock = open(f"{SR}/.lock", "w")
    fcntl.flock(lock, fcntl.LOCK_EX)
    try:
        # no -t: a file that differs (i.e. was patched by the previous seed) is copied back and gets
        # a *new* mtime, so that cargo rebuilds it; with -a the restored file would carry its old
        # mtime, cargo would consider the crate fresh and the previous seed's code would stay compiled in
        # the source is /repo's HEAD commit (exported once per HEAD), not its working tree, so that work
        # going on in /repo cannot leak into a seeded run
        rc, head = sh("git -C /repo rev-parse HEAD")
        head = head.strip()
        stamp = f"{SR}/pristine.head"
        if not (os.path.exists(stamp) and open(stamp).read().strip() == head):
            sh(f"rm -rf {SR}/pristine && mkdir -p {SR}/pristine && git -C /repo archive HEAD | tar -x -C {SR}/pristine")
            open(stamp, "w").write(head)
        sh(f"rsync -rlpgoD --checksum --delete --exclude target --exclude .git {SR}/pristine/ {SR}/repo/")
        rc, o = sh(f"patch -p1 --no-backup-if-mismatch < {rebased or patch}", cwd=f"{SR}/repo")
        if rebased:
            out["checks"]["rebased_patch"] = "the agent's patch was written against an earlier /repo HEAD; the same change was re-applied by hand to the current HEAD (patch-rebased.diff) for running the checks"
        out["checks"]["patch_applies_to_current_repo_head"] = rc == 0
        if rc == 0:
            sh(f"rsync -a --delete --exclude 'target*' /verif/harness/ {SR}/harness/")
            sh(f"sed -i 's#/repo/crates#{SR}/repo/crates#' {SR}/harness/Cargo.toml")
            os.makedirs(f"{SR}/verif/evidence", exist_ok=True)
            shutil.copy("/verif/known_findings.json", f"{SR}/verif/known_findings.json")
            shutil.copy("/verif/properties.jsonl", f"{SR}/verif/properties.jsonl")
            if not os.path.islink(f"{SR}/verif/harness"):
                os.symlink(f"{SR}/harness", f"{SR}/verif/harness")
            env = {"CARGO_TARGET_DIR": f"{SR}/target", "VERIF_DIR": f"{SR}/verif"}
            rc, o = sh("cargo build --release --offline --bin trv 2>&1 | tail -5", cwd=f"{SR}/harness", env=env)
            if not os.path.exists(f"{SR}/target/release/trv") or "error" in o:
                out["checks"]["build"] = o
            else:
                for p in props:
                    res = {}
                    for tier in ["quick", "thorough"]:
                        t0 = time.time()
                        rc, o = sh(f"{SR}/target/release/trv {p} {tier}", cwd=f"{SR}/verif", env=env, timeout=7000)
                        lines = [l[:400] for l in o.splitlines() if l.startswith(("VIOLATION", "KNOWN", "INCONCLUSIVE", p + ":"))]
                        res[tier] = {"exit": rc, "wall_s": round(time.time() - t0, 1), "lines": lines[:6]}
                        out["ran"].append(f"./check {p} {tier}   (harness built against a scratch copy of /repo with the patch applied)")
                        if rc == 1:
                            break
                    out["checks"][p] = res
    finally:
        fcntl.flock(lock, fcntl.LOCK_UN)

    if skip_wt and prev.get("confirmed"):
        out["confirmed"] = prev["confirmed"]
        out["ran"] = [r for r in prev.get("ran", []) if "scratch worktree" in r or "zz_demo" in r] + out["ran"]
    caught = [p for p in props if any(v.get("exit") == 1 for v in out["checks"].get(p, {}).values() if isinstance(v, dict))]
    out["caught_by"] = caught
    dst = f"/verif/seeded/{name}"
    os.makedirs(dst, exist_ok=True)
    if os.path.abspath(seed_dir) != os.path.abspath(dst):
        shutil.copy(patch, os.path.join(dst, "patch.diff"))
        shutil.copy(demo, os.path.join(dst, "demo.rs"))
    if rebased and os.path.abspath(rebased) != os.path.abspath(os.path.join(dst, "patch-rebased.diff")):
        shutil.copy(rebased, os.path.join(dst, "patch-rebased.diff"))
    out["needs"] = meta_in.get("needs", "")
    out["summary"] = meta_in.get("summary", "")
    json.dump(out, open(os.path.join(dst, "meta.json"), "w"), indent=1)
    c = out["confirmed"]
    print(f"{name}: applies={c.get('patch_applies')} suite_ok={c.get('existing_suite_passes_with_patch')} demo_fail_with={c.get('demo_fails_with_patch')} demo_pass_without={c.get('demo_passes_without_patch')} caught_by={caught}")
    for p in props:
        for tier, v in out["checks"].get(p, {}).items():
            if isinstance(v, dict):
                print(f"   {p} {tier}: exit {v['exit']} {v['wall_s']}s {v['lines'][:1]}")

if __name__ == "__main__":
    main()
