#!/usr/bin/env python3
"""Regenerates MANIFEST.json from the table below (run from /verif)."""
import json, subprocess, os
HERE = os.path.dirname(os.path.dirname(os.path.abspath(__file__)))

BASE_NOTE = ("Trusted base: tokio 1.53 (paused clock, timers, Semaphore, sync), tower 0.5 util/buffer/limit, rustc, and the harness "
             "itself (Sim sub-executor, Probe, monitors). Sampled executions only: configurations, poll orders, faults and seeds that the "
             "generators produced; nothing is enumerated exhaustively unless the evidence says so.")

# id -> (technique, level text, design ref, engine)
CHECKS = {
 "C01": ("runtime monitoring: in-flight counter oracle over the probe's enter/exit event log, seeded virtual-time schedules + native multi-thread stress",
         "Every inner-service entry and exit of thousands of seeded bulkhead executions (paused clock, controlled poll order, injected cancellations, panics, never-completing calls, presets) is logged by the instrumented inner service and the running in-flight count is compared with max_concurrent_calls; a native 4-16 worker stress run checks the same bound under real parallelism. Exploration is the right level: the bound is a safety property over schedules and only observed executions are judged.",
         "DESIGN.md §4 C01", "sim+stress"),
 "C07": ("runtime monitoring: offline oracle over client/inner event log (capacity probe burst after quiescence, admission-at-once, rejection instant and variant)",
         "After each seeded history (ok/err/panic/never, cancellations before first poll / queued / running, wait timeouts) the harness reaches quiescence and fires N+1 gated callers at one virtual instant: exactly N must be inside at that instant, the extra one must time out exactly max_wait later (or be admitted when a slot frees). Along the history every arrival with spare capacity and nobody queued must enter at its arrival instant, every rejection must be the bulkhead timeout error exactly max_wait after the first poll, and rejected/cancelled-while-waiting requests must never reach the inner service.",
         "DESIGN.md §4 C07", "sim"),
}

NOT_YET = {}

def main():
    props = [json.loads(l) for l in open(os.path.join(HERE, "properties.jsonl"))]
    hooks_commits = subprocess.run(["git", "-C", "/repo", "log", "--format=%H %s"], capture_output=True, text=True).stdout.splitlines()
    hook_shas = [l.split()[0] for l in hooks_commits if " verif-hooks:" in l]
    checks = []
    na = []
    for p in props:
        pid = p["id"]
        if pid in CHECKS:
            tech, text, ref, engine = CHECKS[pid]
            checks.append({
                "property_id": pid,
                "quick_cmd": f"./check {pid} quick",
                "thorough_cmd": f"./check {pid} thorough",
                "evidence_file": f"evidence/{pid}.json",
                "replay_cmd_template": f"./check {pid} --replay {{path}}",
                "engine": engine,
                "level_claimed": {"category": "exploration", "text": text, "design_ref": ref},
                "level_note": BASE_NOTE,
                "technique": tech,
            })
        else:
            na.append({"property_id": pid, "reason": NOT_YET.get(pid, "check not built yet in this session (runtime monitor planned in DESIGN.md §4); not claimed until its monitor exists and is silent on the unchanged tree")})
    m = {
        "version": 1,
        "setup_cmd": "cd harness && cargo build --release --offline --bin trv",
        "hooks": {
            "guard": "cargo feature verif-hooks (off by default) on tower-resilience-{ratelimiter,cache,circuitbreaker,adaptive}",
            "enable": "harness/Cargo.toml path-depends on /repo/crates/* with features = [\"verif-hooks\"] on those four crates; ./check rebuilds from /repo's working tree",
            "baseline_off_cmd": "cd /repo && (cargo nextest run --workspace --no-fail-fast --offline || cargo test --workspace --no-fail-fast --offline)",
            "source_commits": hook_shas,
            "add_only": True,
        },
        "engines": [
            {"name": "sim", "path": "harness/src/sim.rs", "serves_properties": sorted(CHECKS), "kind_free_text": "seeded sub-executor on tokio's paused clock: controls poll order, spurious polls, cancellation points, panics; exact virtual time"},
            {"name": "stress", "path": "harness/src/props", "serves_properties": ["C01"], "kind_free_text": "native multi-thread tokio runtime, real clock, time-independent invariants only"},
        ],
        "checks": checks,
        "not_applicable": na,
        "notes": "All checks: exit 0 held / 1 VIOLATION / 2 INCONCLUSIVE (never folded into the others). VERIF_SEED seeds every random choice. known_findings.json lists recorded/fixed defects.",
    }
    json.dump(m, open(os.path.join(HERE, "MANIFEST.json"), "w"), indent=1)
    print("MANIFEST.json:", len(checks), "checks,", len(na), "not_applicable")

if __name__ == "__main__":
    main()
