#!/usr/bin/env python3
"""tools/mutate.py <file-relative-to-/repo> <old> <new> <ID> [<ID>...]  [--tier thorough]
Applies a textual mutation to /repo (must be clean), runs the checks, restores /repo."""
import subprocess, sys
args = sys.argv[1:]
tier = "quick"
if "--tier" in args:
    i = args.index("--tier"); tier = args[i+1]; del args[i:i+2]
path, old, new, ids = args[0], args[1], args[2], args[3:]
st = subprocess.run(["git", "-C", "/repo", "status", "--porcelain"], capture_output=True, text=True).stdout.strip()
if st:
    print("repo not clean:", st); sys.exit(3)
p = "/repo/" + path
s = open(p).read()
if s.count(old) != 1:
    print(f"pattern occurs {s.count(old)} times"); sys.exit(3)
open(p, "w").write(s.replace(old, new))
try:
    for i in ids:
        r = subprocess.run(["/verif/check", i, tier], capture_output=True, text=True)
        out = [l[:260] for l in r.stdout.splitlines()]
        print(f"--- {i}: exit {r.returncode}")
        for l in out[:4] + out[-1:]:
            print("   ", l)
finally:
    subprocess.run(["git", "-C", "/repo", "checkout", "--", "."])
